#!/usr/bin/env python3
"""Prints the table of DESIGN.md section 10.5 from seeded/*/meta.json (one row per independently seeded change)."""
import glob, json, os, re

VERIF = os.path.dirname(os.path.dirname(os.path.abspath(__file__)))


def key(p):
    n = os.path.basename(os.path.dirname(p))
    m = re.match(r"C(\d+)(?:r(\d+))?$", n)
    return (int(m.group(1)), int(m.group(2) or 1)) if m else (99, 0)


def main():
    print("| seeded change | what it breaks | checks that report it | note |")
    print("|---|---|---|---|")
    for p in sorted(glob.glob(f"{VERIF}/seeded/C*/meta.json"), key=key):
        m = json.load(open(p))
        name = os.path.basename(os.path.dirname(p))
        caught = m.get("checks_that_report_a_violation_display") or ", ".join(m.get("checks_that_report_a_violation") or m.get("quick_checks_that_report_a_violation") or []) or "none"
        cell = lambda s: str(s).replace("|", "\\|").replace("\n", " ")
        print(f"| `seeded/{name}` | {cell(m.get('breaks', ''))} | {cell(caught)} | {cell(m.get('notes', ''))} |")


if __name__ == "__main__":
    main()
