#!/usr/bin/env python3
"""Writes seeded/<id>/meta.json for one round of independently seeded changes.

usage: mkseededmeta.py notes.json baseline.json [after.json]
  notes.json    {id: {property_targeted, round, breaks, needs_to_manifest, source, notes, [display]}}
  baseline.json results of tools/mutate.py --tests --demo --all-checks with the harness as it was when the change arrived
  after.json    results of tools/mutate.py --all-checks with the harness after it was strengthened (optional)
"""
import json, os, sys

VERIF = os.path.dirname(os.path.dirname(os.path.abspath(__file__)))


def load(p):
    return {x["id"]: x for x in json.load(open(p))}


def main():
    notes = json.load(open(sys.argv[1]))
    base = load(sys.argv[2])
    after = load(sys.argv[3]) if len(sys.argv) > 3 else {}
    for sid, n in notes.items():
        b = base.get(sid, {})
        a = after.get(sid)
        caught0 = b.get("caught_by", [])
        caught1 = a.get("caught_by", []) if a else caught0
        meta = {
            "property_targeted": n["property_targeted"],
            "round": n["round"],
            "breaks": n["breaks"],
            "needs_to_manifest": n["needs_to_manifest"],
            "source": n["source"],
            "confirmed_by_me": {
                "applies_cleanly_and_compiles": bool(b.get("tests", {}).get("compiles")),
                "existing_tests": b.get("tests"),
                "demo": b.get("demo"),
                "how": f"tools/mutate.py --patch seeded/{sid}/patch.diff --demo seeded/{sid}/demo.rs --tests --all-checks",
            },
            "checks_that_reported_it_when_it_arrived": caught0,
            "checks_that_report_a_violation": caught1,
            "notes": n["notes"],
        }
        if "display" in n:
            meta["checks_that_report_a_violation_display"] = n["display"]
        os.makedirs(f"{VERIF}/seeded/{sid}", exist_ok=True)
        json.dump(meta, open(f"{VERIF}/seeded/{sid}/meta.json", "w"), indent=1)
        print(sid, caught0, "->", caught1)


if __name__ == "__main__":
    main()
