#!/usr/bin/env python3
"""Regenerates /verif/MANIFEST.json from the table below and validates it against the schema."""
import json, os, subprocess, sys
HERE = os.path.dirname(os.path.dirname(os.path.abspath(__file__)))

BASE_TRUST = "rustc/std, proptest 1.11 (generation + shrinking), the independent reference model rsv::refmodel (own GF(2^16) arithmetic from 0x1002D + Cantor basis; self-tested at every start), the verif-hooks lines in /repo"

CHECKS = {
 "C01": dict(technique="property-based testing (proptest, round-trip oracle) over generated configurations, data and received sets",
             text="Generated-input search: tens of thousands (quick) to ~1M (thorough) encode/decode round trips over codec family x engine x configuration class x shard size x loss pattern, incl. envelope corners at maximum loss; the oracle is exact (restored map == withheld originals). Sampling cannot prove the forall; it finds wrong bookkeeping, wrong padding/truncation and wrong kernels with high probability because generators are shaped by the code's case distinctions.",
             ref="DESIGN.md 4 C01", note=BASE_TRUST),
}

NOT_YET = "check not built yet in this revision (work in progress; see DESIGN.md for the planned generator and oracle)"

def main():
    props = [json.loads(l) for l in open(os.path.join(HERE, "properties.jsonl"))]
    hooks_commits = subprocess.run(["git", "-C", "/repo", "log", "--format=%H %s"], capture_output=True, text=True).stdout.splitlines()
    hook_commits = [l.split()[0] for l in hooks_commits if "verif-hooks:" in l]
    checks, na = [], []
    for p in props:
        pid = p["id"]
        if pid in CHECKS:
            c = CHECKS[pid]
            checks.append({
                "property_id": pid,
                "quick_cmd": f"./check {pid} quick",
                "thorough_cmd": f"./check {pid} thorough",
                "evidence_file": f"/verif/evidence/{pid}.json",
                "replay_cmd_template": f"./check {pid} --replay {{path}}",
                "engine": "rsv",
                "technique": c["technique"],
                "level_claimed": {"category": "exploration", "text": c["text"], "design_ref": c["ref"]},
                "level_note": c["note"],
            })
        else:
            na.append({"property_id": pid, "reason": NOT_YET})
    m = {
        "version": 1,
        "setup_cmd": "./setup.sh",
        "hooks": {
            "guard": "verif-hooks",
            "enable": "cargo feature: the harness depends on reed-solomon-simd = { path = \"/repo\", features = [\"verif-hooks\"] }",
            "baseline_off_cmd": "cd /repo && cargo test --workspace --no-fail-fast --offline",
            "source_commits": hook_commits,
            "add_only": True,
        },
        "engines": [{
            "name": "rsv",
            "path": "/verif/harness",
            "serves_properties": sorted(CHECKS.keys()),
            "kind_free_text": "Rust harness: proptest-driven generators + explicit oracles (reference model, round trip, differential, metamorphic, twin objects), exhaustive enumeration of small finite spaces, libFuzzer targets sharing the same oracles",
        }],
        "checks": checks,
        "notes": "Every check: ./check <id> quick|thorough rebuilds the harness against /repo's working tree with the verif-hooks feature on, replays /verif/regress/<id>/*.json, explores, writes /verif/evidence/<id>.json; exit 0 held / 1 VIOLATION / 2 inconclusive (build failure, watchdog, dead hook).",
    }
    if na:
        m["not_applicable"] = na
    out = os.path.join(HERE, "MANIFEST.json")
    json.dump(m, open(out, "w"), indent=1)
    try:
        import jsonschema
        jsonschema.validate(m, json.load(open("/root/.vp/MANIFEST.schema.json")))
        print("MANIFEST.json valid;", len(checks), "checks,", len(na), "not claimed")
    except ImportError:
        print("jsonschema not importable; wrote without validation")

if __name__ == "__main__":
    main()
