#!/usr/bin/env python3
"""Regenerates /verif/MANIFEST.json from the table below and validates it against the schema."""
import json, os, subprocess, sys
HERE = os.path.dirname(os.path.dirname(os.path.abspath(__file__)))

BASE_TRUST = "rustc/std, proptest 1.11 (generation + shrinking), the independent reference model rsv::refmodel (own GF(2^16) arithmetic from 0x1002D + Cantor basis; self-tested at every start), the verif-hooks lines in /repo; every check runs its cases in an optimised build with debug assertions and overflow checks and repeats a quarter as many in a second build without them (wrapping arithmetic)"

def C(technique, text, ref, extra_trust=""):
    return dict(technique=technique, text=text, ref=ref, note=BASE_TRUST + (("; " + extra_trust) if extra_trust else ""))

CHECKS = {
 "C01": C("property-based testing (proptest): round-trip oracle over generated configurations, data and received sets, from 1+1 x 2 bytes to 2 GiB working sets",
          "Generated-input search: tens of thousands (quick) to ~1M (thorough) encode/decode round trips over codec family x engine x configuration class x shard size x 8 loss-pattern families, the one-shot functions, every envelope corner at maximum loss and with up to ALL k + r shards given, thousands of shards that are not corners (also with shards of 1-2 KiB), data with restricted byte values, long shards up to 4 MiB, and (part big_roundtrip) working sets up to 768 MiB / 2 GiB with up to 400 shards per side; the oracle is exact (restored map == withheld originals, both directions). Sampling cannot prove the forall; it finds wrong bookkeeping, padding/truncation and kernels with high probability because the generators follow the code's case distinctions (chunk boundaries, odd layer, tails, corners).",
          "DESIGN.md 4 C01"),
 "C02": C("property-based testing: differential against an independent closed-form reference (own GF(2^16) arithmetic) and against the frozen ancestor crate",
          "Every generated encode is compared symbol by symbol with G*data where G is the closed-form scaled Cauchy matrix evaluated with arithmetic built only from 0x1002D and the Cantor basis (no FFT, no crate table), for both rates, all engines, all chunk shapes and tails, plus envelope-corner configurations on sampled rows; multiples of 64 bytes are also compared with reed-solomon-16 0.1.0. Exploration, not proof: a wire-format change confined to a configuration class the generator never draws would be missed.",
          "DESIGN.md 4 C02", "reed-solomon-16 0.1.0 from the cargo cache"),
 "C03": C("property-based differential testing across engines (incl. Neon source on emulated intrinsics), contract-defined outputs only",
          "Each generated primitive call and each generated round is executed on all six engines and compared bit for bit on exactly what the Engine contract defines; guard shards and trailing blocks prove confinement. Exploration over (pos, size up to 65536, truncated, aligned and unaligned skew, log_m, blocks, structured and random content, arbitrary eval_poly element values, buffer address alignment).",
          "DESIGN.md 4 C03", "seven emulated Neon intrinsics (rsv-neon/src/neon_emu.rs)"),
 "C04": C("property-based metamorphic testing: big-shard coding vs per-slot 2-byte coding through the documented byte placement",
          "For generated sizes covering every tail length, outputs must have exactly the shard size and every (or sampled) slot must equal the result of coding that slot alone as 2-byte shards, for encode and decode, half of the cases on a reused object with poisoned padding lanes (a third of those reset from the same counts and block count with another tail length); one case in five with hundreds to thousands of shards of up to 2 KiB. Exploration.",
          "DESIGN.md 4 C04"),
 "C05": C("model-based / stateful property testing: generated call histories (incl. related configurations, long-lived objects, big working spaces), differential against a freshly constructed object, adversarial stale memory via poison hook; libFuzzer (ASan) in thorough",
          "Generated histories (resets across counts, sizes and rates, abandoned rounds, failing calls, work recycling across families and engines) on one object; at every encode/decode the same calls are replayed on a fresh object and all results must be identical; with the poison hook every retained byte of working memory is noise, which realises the property's 'all possible stale contents'. Histories include related configurations (same, permuted, neighbouring, retried after a failure, returned to); part reset_streaks takes one object through streaks of up to 300 consecutive resets / recycles / failing calls; part big_history repeats the oracle on working spaces up to 256 MiB / 2 GiB, part long_life on objects that live through up to ~140 000 rounds. Exploration of the history space.",
          "DESIGN.md 4 C05"),
 "C06": C("model-based property testing: executable model of documented preconditions, extreme-value argument pools, panic capture",
          "Generated calls on every public entry point in generated object states; the model yields the set of truthful errors; Ok iff the set is empty, otherwise the error must be a member; any unwind is a violation. Built with overflow checks on. Part after_reset_streaks requires Ok for every valid call after up to 300 consecutive resets. Exploration over arguments up to usize::MAX and reachable states.",
          "DESIGN.md 4 C06"),
 "C07": C("stateful property testing with a twin object (fault injection at every point of a round)",
          "Histories biased towards failing calls; a twin object receives only the calls that succeeded; all later results must be equal and nothing may unwind. This is literally 'as if the failed call had not been made'. Part big_twin repeats it on long shards; part failure_streaks compares an object that lived through up to 300 consecutive failing calls with a fresh one. Exploration.",
          "DESIGN.md 4 C07"),
 "C08": C("exhaustive enumeration of [0,65537]^2 x 3 rates against the README envelope + property-based boundary testing of constructors + round trips at every corner",
          "The supports predicate of the three rates is decided exhaustively on [0,65537]^2 (1.3e10 evaluations per run) and on usize extremes; all other supports entry points, validate/new/reset/Rate::encoder/decoder are explored on the boundary band; every staircase corner is round-tripped. The predicate part is exhaustive, the rest exploration.",
          "DESIGN.md 4 C08"),
 "C09": C("property-based differential testing: default-rate codec vs the dedicated codec selected by the rule as worded; wrappers vs default rate",
          "Generated configurations (incl. those only one rate supports) and reset histories crossing the rate boundary; bytes must equal the dedicated codec the rule selects; ReedSolomon* and one-shot must equal DefaultRate with any engine. Observability of the choice is measured per case. Exploration.",
          "DESIGN.md 4 C09"),
 "C10": C("property-based differential testing: one-shot functions vs the documented streaming sequence, truthful-error model for failures",
          "Generated argument tuples built from a valid base with injected faults, with and without recovery shards, passed through four kinds of iterator (slice, loose size_hint, no size_hint, re-entrant), including MiB-sized shards and count pairs on the envelope boundary; streaming Ok => identical result; streaming Err => truthful error; never Ok on faulty input. Exploration.",
          "DESIGN.md 4 C10"),
 "C11": C("property-based metamorphic testing over arrival permutations and supersets",
          "One encoded instance decoded under two generated arrival orders, a generated superset and the all-originals case; results must be identical / restricted / empty; part corner_supersets does it on every staircase corner of the envelope with the superset of all 65536 shards, part many_long_supersets on thousands of shards of 2..6 KiB. Exploration of permutations and supersets.",
          "DESIGN.md 4 C11"),
 "C12": C("model-based property testing of the accessor contract over generated probes and consecutive rounds",
          "Generated configurations, received sets, index probes up to usize::MAX and up to 20 consecutive rounds on one encoder and decoder; accessors and iterators must agree with the model exactly; part iter_protocol drives both result iterators with generated sequences of std Iterator operations, 22 consuming methods called directly on partly consumed iterators, two interleaved iterators, and (where the iterator types offer it) next_back mixed with next, against a model iterator. Exploration.",
          "DESIGN.md 4 C12"),
 "C13": C("property-based metamorphic testing (linearity: xor, zero, scalar multiple with independent field arithmetic)",
          "Oracle-free algebraic laws over generated data pairs and constants for all families, engines and sizes. Exploration.",
          "DESIGN.md 4 C13"),
 "C14": C("exhaustive enumeration of the 4 feature masks x generated workloads, ISA trace oracle from hooks",
          "All subsets of {ssse3, avx2} are enumerated for every generated workload, authoritatively with every mask in its own fresh child process (robust to implementations that cache runtime detection); the trace recorded in the target_feature entry points decides what ran; raw transforms of up to 65536 shards and up to 512 MiB / 1 GiB cover size-keyed dispatch. x86 only; calibration failure is inconclusive. Masks exhaustive, workloads explored.",
          "DESIGN.md 4 C14", "the feature-mask macro and trace lines added under verif-hooks"),
 "C15": C("exhaustive enumeration of tables and (thorough) all 2^32 mul pairs per engine + property-based testing of fft/ifft/eval_poly against definitions evaluated by independent arithmetic",
          "Tables exhaustively equal their definitions; mul for every log_m (all symbols in thorough); fft/ifft against LCH-basis polynomial evaluation; eval_poly against the erasure-locator log sum modulo 65535. Tables/mul exhaustive, transforms explored.",
          "DESIGN.md 4 C15"),
 "C16": C("generated stress programs in fresh child processes (racing lazy table initialisation, hand-over mid-round), sequential-result oracle",
          "Generated thread programs are run in fresh processes so every program races first-touch initialisation; results must equal sequential execution and the child must exit 0; systematic hammer programs (every engine x family x encoder/decoder, thousands of shards, 48 / 160 / 300 threads, one-shot calls that wait for each other, rounds completed inside thread-local destructors while the thread exits) and, in thorough, ThreadSanitizer builds. The OS picks the schedules: this is stress exploration and cannot enumerate interleavings; a watchdog hit is inconclusive.",
          "DESIGN.md 4 C16", "the OS scheduler for interleavings"),
 "C17": C("stateful metamorphic property testing with a counting global allocator (measured need; allocation in fitting regions must not scale with the configuration)",
          "Generated histories of resets, recycling and rounds; executed at three scales (as generated, shard sizes x3, counts x2): whenever the measured need of the target does not exceed what the object has held before, the bytes allocated in the region must not grow with the scale (a fixed-size scratch is tolerated, shard-proportional memory is not); part big_resets does the same for working spaces up to 512 MiB / 4 GiB; part long_runs measures runs of up to 2100 / 66000 rounds or fitting resets as one region. Exploration.",
          "DESIGN.md 4 C17", "the counting allocator in rsv/src/alloc.rs"),
}

NOT_YET = "check not built yet in this revision (work in progress; see DESIGN.md for the planned generator and oracle)"

def main():
    props = [json.loads(l) for l in open(os.path.join(HERE, "properties.jsonl"))]
    hooks_commits = subprocess.run(["git", "-C", "/repo", "log", "--format=%H %s"], capture_output=True, text=True).stdout.splitlines()
    hook_commits = [l.split()[0] for l in hooks_commits if "verif-hooks:" in l]
    checks, na = [], []
    for p in props:
        pid = p["id"]
        if pid in CHECKS:
            c = CHECKS[pid]
            checks.append({
                "property_id": pid,
                "quick_cmd": f"./check {pid} quick",
                "thorough_cmd": f"./check {pid} thorough",
                "evidence_file": f"/verif/evidence/{pid}.json",
                "replay_cmd_template": f"./check {pid} --replay {{path}}",
                "engine": "rsv",
                "technique": c["technique"],
                "level_claimed": {"category": "exploration", "text": c["text"], "design_ref": c["ref"]},
                "level_note": c["note"],
            })
        else:
            na.append({"property_id": pid, "reason": NOT_YET})
    m = {
        "version": 1,
        "setup_cmd": "./setup.sh",
        "hooks": {
            "guard": "verif-hooks",
            "enable": "cargo feature: the harness depends on reed-solomon-simd = { path = \"/repo\", features = [\"verif-hooks\"] }",
            "baseline_off_cmd": "cd /repo && cargo test --workspace --no-fail-fast --offline",
            "source_commits": hook_commits,
            "add_only": True,
        },
        "engines": [{
            "name": "rsv",
            "path": "/verif/harness",
            "serves_properties": sorted(CHECKS.keys()),
            "kind_free_text": "Rust harness: proptest-driven generators + explicit oracles (reference model, round trip, differential, metamorphic, twin objects), exhaustive enumeration of small finite spaces, libFuzzer targets sharing the same oracles",
        }],
        "checks": checks,
        "notes": "Every check: ./check <id> quick|thorough rebuilds the harness against /repo's working tree with the verif-hooks feature on, replays /verif/regress/<id>/*.json, explores, writes /verif/evidence/<id>.json; exit 0 held / 1 VIOLATION / 2 inconclusive (build failure, watchdog, dead hook).",
    }
    if na:
        m["not_applicable"] = na
    out = os.path.join(HERE, "MANIFEST.json")
    json.dump(m, open(out, "w"), indent=1)
    try:
        import jsonschema
        jsonschema.validate(m, json.load(open("/root/.vp/MANIFEST.schema.json")))
        print("MANIFEST.json valid;", len(checks), "checks,", len(na), "not claimed")
    except ImportError:
        print("jsonschema not importable; wrote without validation")

if __name__ == "__main__":
    main()
