#!/usr/bin/env python3
"""Hand-made mutants of the anchored mechanisms (DESIGN.md 4). Writes tools/mutants.json."""
import json, os
M = []
def m(id, props, file, old, new, note, count=1):
    M.append(dict(id=id, props=props, file=file, old=old, new=new, note=note, count=count))

H = "src/rate/rate_high.rs"; L = "src/rate/rate_low.rs"; D = "src/rate/rate_default.rs"
DW = "src/rate/decoder_work.rs"; EW = "src/rate/encoder_work.rs"; SH = "src/engine/shards.rs"
UT = "src/engine/utils.rs"; TB = "src/engine/tables.rs"; FW = "src/engine/fwht.rs"
AV = "src/engine/engine_avx2.rs"; SS = "src/engine/engine_ssse3.rs"; NS = "src/engine/engine_nosimd.rs"
NE = "src/engine/engine_neon.rs"; DE = "src/engine/engine_default.rs"; LIB = "src/lib.rs"
ER = "src/encoder_result.rs"; DR = "src/decoder_result.rs"

# ---- C01 / decode mechanics
m("m01-high-dec-no-fill-padding-erasures", ["C01","C03","C11"], H, "        erasures[recovery_count..chunk_size].fill(1);\n", "", "padding positions between recovery_count and chunk_size not marked erased")
m("m02-high-dec-evalpoly-trunc-short", ["C01","C11"], H, "E::eval_poly(&mut erasures, original_end);", "E::eval_poly(&mut erasures, original_end - 1);", "erasure vector truncated one short")
m("m03-low-dec-no-fill-tail-erasures", ["C01","C11"], L, "        erasures[recovery_end..].fill(1);\n", "", "low rate: positions beyond recovery_end not marked erased")
m("m04-high-reveal-range-short", ["C01","C12"], H, "        for i in chunk_size..original_end {\n            if !received[i] {\n                self.engine.mul(&mut work[i], GF_MODULUS - erasures[i]);", "        for i in chunk_size..original_end - 1 {\n            if !received[i] {\n                self.engine.mul(&mut work[i], GF_MODULUS - erasures[i]);", "last original never revealed")
m("m05-low-copy-loop-le", ["C01","C02"], L, "        while chunk_start < recovery_count {\n            work.copy_within(0, chunk_start, chunk_size);", "        while chunk_start + chunk_size < recovery_count {\n            work.copy_within(0, chunk_start, chunk_size);", "last (partial) recovery chunk does not get the IFFT result")
m("m06-formal-derivative-skip-last", ["C01"], UT, "    for i in 1..data.len() {\n        let width", "    for i in 1..data.len() - 1 {\n        let width", "formal derivative skips the last position")
# ---- C05 stale memory
m("m08-high-dec-no-zero-tail", ["C05","C04"], H, "        work.zero(original_end..);\n", "", "decoder does not zero work beyond original_end")
m("m09-high-enc-no-zero-first-chunk-pad", ["C05","C04"], H, "        work.zero(first_count..chunk_size);\n", "", "encoder does not zero-pad the first chunk")
m("m09b-high-enc-no-zero-last-chunk-pad", ["C05","C04"], H, "                work.zero(chunk_start + last_count..);\n", "", "encoder does not zero-pad the final partial chunk")
m("m10-low-enc-no-zero-pad", ["C05","C04"], L, "        work.zero(original_count..chunk_size);\n\n        // IFFT - ORIGINAL", "        // IFFT - ORIGINAL", "low-rate encoder does not zero-pad originals")
m("m11-high-dec-missing-not-zeroed", ["C05","C04"], H, "        for i in chunk_size..original_end {\n            if received[i] {\n                self.engine.mul(&mut work[i], erasures[i]);\n            } else {\n                work[i].fill([0; 64]);\n            }\n        }", "        for i in chunk_size..original_end {\n            if received[i] {\n                self.engine.mul(&mut work[i], erasures[i]);\n            }\n        }", "missing originals keep stale bytes")
m("m11b-low-dec-missing-recovery-not-zeroed", ["C05","C04"], L, "        for i in chunk_size..recovery_end {\n            if received[i] {\n                self.engine.mul(&mut work[i], erasures[i]);\n            } else {\n                work[i].fill([0; 64]);\n            }\n        }", "        for i in chunk_size..recovery_end {\n            if received[i] {\n                self.engine.mul(&mut work[i], erasures[i]);\n            }\n        }", "missing recovery positions keep stale bytes")
m("m11c-low-dec-no-zero-mid", ["C05","C04"], L, "        work.zero(original_count..chunk_size);\n\n        for i in chunk_size..recovery_end", "        for i in chunk_size..recovery_end", "low-rate decoder does not zero original_count..chunk_size")
m("m12-reset-received-keeps-recovery-count", ["C05","C12","C07"], DW, "        self.original_received_count = 0;\n        self.recovery_received_count = 0;\n        self.received.clear();\n    }", "        self.original_received_count = 0;\n        self.received.clear();\n    }", "implicit reset forgets to clear recovery_received_count")
m("m13-reset-keeps-received-bitmap", ["C05","C07"], DW, "        self.received.clear();\n        if self.received.len() < max_received_pos {", "        if self.received.len() < max_received_pos {", "explicit reset does not clear the received bitmap")
m("m14-resize-skips-when-len-equal", ["C05","C04"], SH, "        self.shard_count = shard_count;\n        self.shard_len_64 = shard_len_64;\n\n        #[cfg(feature", "        if self.data.len() == shard_count * shard_len_64 && !self.data.is_empty() {\n            return;\n        }\n        self.shard_count = shard_count;\n        self.shard_len_64 = shard_len_64;\n\n        #[cfg(feature", "resize keeps old geometry when total length is unchanged")
# ---- C02 wire format
m("m15-skew-entry-changed", ["C02","C15","C01"], TB, "    for i in 0..GF_MODULUS as usize {\n        skew[i] = log[skew[i] as usize];\n    }", "    for i in 0..GF_MODULUS as usize {\n        skew[i] = log[skew[i] as usize];\n    }\n    skew[50_001] = skew[50_001].wrapping_add(1) % GF_MODULUS;", "one skew entry far from small configurations changed")
m("m15b-skew-entry-small", ["C02","C15"], TB, "    for i in 0..GF_MODULUS as usize {\n        skew[i] = log[skew[i] as usize];\n    }", "    for i in 0..GF_MODULUS as usize {\n        skew[i] = log[skew[i] as usize];\n    }\n    skew[300] = skew[300].wrapping_add(1) % GF_MODULUS;", "skew entry 300 changed (only multi-chunk configurations see it)")
m("m16-high-enc-xor-wrong-chunk", ["C02","C01"], H, "                engine::ifft_skew_end(engine, &mut work, chunk_start, chunk_size, last_count);\n                engine::xor_within(&mut work, 0, chunk_start, chunk_size);", "                engine::ifft_skew_end(engine, &mut work, chunk_start, chunk_size, last_count);\n                engine::xor_within(&mut work, 0, chunk_start, last_count);", "final partial chunk only partially accumulated")
m("m17-exp-modulus-not-set", ["C15","C02","C13"], TB, "    exp[GF_MODULUS as usize] = exp[0];\n", "", "exp[65535] left 0")
m("m17b-logwalsh-zero-not-cleared", [f"C{i:02d}" for i in range(1,18)], TB, "    log_walsh[0] = 0;\n", "", "EQUIVALENT modulo 65535: must NOT be flagged")
# ---- C03 engine specific
m("m18-avx2-ifft-odd-layer-xor-swapped", ["C03","C15"], AV, "                utils::xor_within(data, pos + dist, pos, dist);", "                utils::xor_within(data, pos, pos + dist, dist);", "avx2 final odd ifft layer (sentinel case) xors the wrong way")
m("m18b-ssse3-fft-final-layer-trunc", ["C03","C15"], SS, "        if dist4 == 2 {\n            let mut r = 0;\n            while r < truncated_size {\n                let log_m = self.skew[r + skew_delta];", "        if dist4 == 2 {\n            let mut r = 0;\n            while r + 1 < truncated_size {\n                let log_m = self.skew[r + skew_delta];", "ssse3 fft final odd layer stops one pair early for odd truncated sizes")
m("m19-nosimd-muladd-nibble", ["C03","C15","C13"], NS, "                x_lo[i] ^= prod as u8;\n                x_hi[i] ^= (prod >> 8) as u8;", "                x_lo[i] ^= prod as u8;\n                x_hi[i] ^= (prod >> 8) as u8 & if log_m == 12345 { 0x7F } else { 0xFF };", "NoSimd mul_add wrong for one multiplier")
m("m20-neon-shift", ["C03","C15"], NE, "            let data_1 = vshrq_n_u8(value_hi, 4);", "            let data_1 = vshrq_n_u8(value_hi, 3);", "Neon kernel shifts the high nibble by 3 (not compiled on x86; tests cannot see it)")
# ---- C04 tails
m("m21-dec-undo-range-from-zero", ["C04","C01"], DW, "            self.original_base_pos..self.original_base_pos + self.original_count,", "            0..self.original_count,", "decoder re-packs the tail block of the wrong positions")
m("m22-undo-copy-len", ["C04"], SH, "            last_chunk.copy_within(32..32 + tail_len / 2, tail_len / 2);", "            last_chunk.copy_within(32..32 + tail_len / 2 - tail_len / 32, tail_len / 2);", "tail re-pack copies one byte too few for tails >= 32")
m("m23-insert-split", ["C04","C01"], SH, "            let (src_lo, src_hi) = src_tail.split_at(tail_len / 2);", "            let (src_lo, src_hi) = src_tail.split_at(if tail_len == 62 { 30 } else { tail_len / 2 });", "insert splits a 62-byte tail at the wrong place")
# ---- C06 / C07 checks order
m("m24-dec-index-gt", ["C06","C10"], DW, "        if index >= self.original_count {\n            return Err(Error::InvalidOriginalShardIndex {", "        if index > self.original_count {\n            return Err(Error::InvalidOriginalShardIndex {", "index == original_count accepted")
m("m25-enc-count-before-len-check", ["C07","C06"], EW, "        if self.original_received_count == self.original_count {\n            Err(Error::TooManyOriginalShards {\n                original_count: self.original_count,\n            })\n        } else if original_shard.len() != self.shard_bytes {\n            Err(", "        if self.original_received_count == self.original_count {\n            Err(Error::TooManyOriginalShards {\n                original_count: self.original_count,\n            })\n        } else if original_shard.len() != self.shard_bytes {\n            self.original_received_count += 1;\n            Err(", "failed add still counts the shard")
m("m26-dec-mark-received-before-len-check", ["C07","C06"], DW, "        if self.received[pos] {\n            Err(Error::DuplicateRecoveryShardIndex { index })\n        } else if recovery_shard.len() != self.shard_bytes {\n            Err(", "        if self.received[pos] {\n            Err(Error::DuplicateRecoveryShardIndex { index })\n        } else if recovery_shard.len() != self.shard_bytes {\n            self.received.set(pos, true);\n            Err(", "failed recovery add marks the position as received")
m("m27-high-reset-work-before-validate", ["C07","C06"], H, "        Self::validate(original_count, recovery_count, shard_bytes)?;\n        work.reset(\n            original_count,\n            recovery_count,\n            shard_bytes,\n            Self::work_count(original_count, recovery_count),\n        );\n        Ok(())", "        if Self::supports(original_count, recovery_count) && shard_bytes % 2 == 0 {\n            work.reset(\n                original_count,\n                recovery_count,\n                shard_bytes,\n                Self::work_count(original_count, recovery_count),\n            );\n        }\n        Self::validate(original_count, recovery_count, shard_bytes)?;\n        Ok(())", "high-rate encoder reset mutates before validating (shard size 0 slips through)")
m("m27b-validate-odd-only", ["C06","C08"], "src/rate.rs", "        } else if shard_bytes == 0 || shard_bytes & 1 != 0 {", "        } else if shard_bytes & 1 != 0 {", "shard size 0 accepted by validate")
# ---- C08 envelope
m("m28-high-supports-lt", ["C08","C06"], H, "            && recovery_count.next_power_of_two() + original_count <= GF_ORDER", "            && recovery_count.next_power_of_two() + original_count < GF_ORDER", "high rate rejects the exact boundary")
m("m29-default-supports-ge", ["C08","C06"], D, "smaller_pow2 + larger > GF_ORDER", "smaller_pow2 + larger >= GF_ORDER", "default rate rejects the exact boundary")
m("m29b-low-supports-allows-65536", ["C08","C06"], L, "            && recovery_count < GF_ORDER\n            && original_count.next_power_of_two() + recovery_count <= GF_ORDER", "            && original_count.next_power_of_two() + recovery_count <= GF_ORDER", "low rate: dropped recovery_count < GF_ORDER guard (equivalent? next_pow2>=1 so r<=65535 anyway)")
# ---- C09 rule
m("m30-tie-other-way", ["C09"], D, "            if original_count <= recovery_count {\n                // Using the \"wrong\" rate on purpose.\n                Ok(true)", "            if original_count < recovery_count {\n                // Using the \"wrong\" rate on purpose.\n                Ok(true)", "tie k == r broken the other way: UNOBSERVABLE (single chunk both rates) - must not be flagged")
m("m31-reset-keeps-rate", ["C09","C05"], D, "            InnerEncoder::High(mut high) => {\n                if new_rate_is_high {", "            InnerEncoder::High(mut high) => {\n                if new_rate_is_high || HighRateEncoder::<E>::supports(original_count, recovery_count) {", "default encoder stays high rate after reset whenever high supports the new counts")
# ---- C10 one-shot
m("m32-encode-takes-k", ["C10","C06"], LIB, "    for original in original {\n        encoder.add_original_shard(original)?;\n    }", "    for original in original.take(original_count.saturating_sub(1)) {\n        encoder.add_original_shard(original)?;\n    }", "one-shot encode silently ignores surplus originals")
m("m33-decode-skips-first-recovery-dup-check", ["C10","C06"], LIB, "    decoder.add_recovery_shard(first_recovery.0, first_recovery.1)?;\n    for (index, recovery) in recovery {\n        decoder.add_recovery_shard(index, recovery)?;\n    }", "    decoder.add_recovery_shard(first_recovery.0, first_recovery.1)?;\n    for (index, recovery) in recovery {\n        if index == first_recovery.0 {\n            continue;\n        }\n        decoder.add_recovery_shard(index, recovery)?;\n    }", "one-shot decode silently skips a duplicate of the first recovery index")
# ---- C11 / C12
m("m34-nothing-to-do-counts-recovery", ["C11","C01","C12"], DW, "        } else if self.original_received_count == self.original_count {\n            Ok(None)", "        } else if self.original_received_count + self.recovery_received_count / 2 >= self.original_count + self.recovery_count / 2 {\n            Ok(None)", "nothing-to-do shortcut also taken when all shards arrive (then nothing is wrong) - equivalent-ish; see result")
m("m35-recovery-index-le", ["C12"], EW, "        if index < self.recovery_count {\n            Some(", "        if index < self.recovery_count || (index == self.recovery_count && index % 2 == 1 && index > 1) {\n            Some(", "recovery(recovery_count) is Some when working space has that position", )
m("m36-restored-ignores-received-for-high-index", ["C12","C11"], DW, "        if self.received[pos] {\n            None\n        } else {\n            Some(&self.shards[pos].as_flattened()[..self.shard_bytes])\n        }", "        if self.received[pos] && index < 64 {\n            None\n        } else {\n            Some(&self.shards[pos].as_flattened()[..self.shard_bytes])\n        }", "given originals with index >= 64 are reported as restored")
# ---- C14
m("m40-new-prefers-ssse3", ["C14"], DE, "            if is_x86_feature_detected!(\"avx2\") {\n                return Self(Box::new(Avx2::new()));\n            }\n\n            if is_x86_feature_detected!(\"ssse3\") {\n                return Self(Box::new(Ssse3::new()));\n            }", "            if is_x86_feature_detected!(\"ssse3\") {\n                return Self(Box::new(Ssse3::new()));\n            }\n\n            if is_x86_feature_detected!(\"avx2\") {\n                return Self(Box::new(Avx2::new()));\n            }", "DefaultEngine::new prefers SSSE3 over AVX2")
m("m41-evalpoly-avx2-only", ["C14"], DE, "            if is_x86_feature_detected!(\"ssse3\") {\n                return Ssse3::eval_poly(erasures, truncated_size);\n            }\n", "", "eval_poly falls back to portable code on SSSE3-only CPUs")
m("m42-evalpoly-avx2-under-ssse3-test", ["C14"], DE, "                return Ssse3::eval_poly(erasures, truncated_size);", "                return Avx2::eval_poly(erasures, truncated_size);", "eval_poly runs AVX2 code when only SSSE3 was detected")
m("m42b-new-avx2-undetected", ["C14"], DE, "            if is_x86_feature_detected!(\"ssse3\") {\n                return Self(Box::new(Ssse3::new()));\n            }", "            if is_x86_feature_detected!(\"ssse3\") {\n                return Self(Box::new(Avx2::new()));\n            }", "constructs the AVX2 engine after only checking SSSE3")
# ---- C15 tables / fwht
m("m44-fwht-trunc-bound", ["C15","C03","C01"], FW, "        for r in (0..m_truncated).step_by(dist4) {", "        for r in (0..m_truncated.saturating_sub(1)).step_by(dist4) {", "fwht drops the block holding a single trailing non-zero element")
m("m45-mul128-entry", ["C15","C03","C02"], TB, "            mul128[log_m as usize].lo[i] = u128::from_le_bytes(prod_lo);", "            if log_m == 40_000 && i == 2 {\n                prod_lo[9] ^= 1;\n            }\n            mul128[log_m as usize].lo[i] = u128::from_le_bytes(prod_lo);", "one Mul128 nibble entry wrong")
m("m46-mul16-entry", ["C15","C03"], TB, "            lut[3][i] = mul((i << 12) as GfElement, log_m, exp, log);", "            lut[3][i] = mul((i << 12) as GfElement, log_m, exp, log) ^ GfElement::from(log_m == 65_535 && i == 15);", "one Mul16 entry wrong for log_m = 65535")
# ---- C17 allocation
m("m48-resize-fresh-vec", ["C17"], SH, "        self.data\n            .resize(self.shard_count * self.shard_len_64, [0; 64]);", "        self.data = vec![[0; 64]; self.shard_count * self.shard_len_64];", "resize allocates a fresh buffer every time")
m("m49-bitmap-fresh", ["C17"], DW, "        self.received.clear();\n        if self.received.len() < max_received_pos {\n            self.received.grow(max_received_pos);\n        }", "        self.received = FixedBitSet::with_capacity(max_received_pos);", "reset allocates a fresh bitmap")
m("m50-new-ignores-work", ["C17"], H, "        let mut work = work.unwrap_or_default();\n        Self::reset_work(original_count, recovery_count, shard_bytes, &mut work)?;\n        Ok(Self { engine, work })\n    }\n\n    fn reset(\n        &mut self,\n        original_count: usize,\n        recovery_count: usize,\n        shard_bytes: usize,\n    ) -> Result<(), Error> {\n        Self::reset_work(original_count, recovery_count, shard_bytes, &mut self.work)\n    }\n}\n\n// ======================================================================\n// HighRateDecoder - PRIVATE", "        drop(work);\n        let mut work = DecoderWork::new();\n        Self::reset_work(original_count, recovery_count, shard_bytes, &mut work)?;\n        Ok(Self { engine, work })\n    }\n\n    fn reset(\n        &mut self,\n        original_count: usize,\n        recovery_count: usize,\n        shard_bytes: usize,\n    ) -> Result<(), Error> {\n        Self::reset_work(original_count, recovery_count, shard_bytes, &mut self.work)\n    }\n}\n\n// ======================================================================\n// HighRateDecoder - PRIVATE", "HighRateDecoder::new ignores the recycled working space")
m("m51-decode-scratch-on-heap", ["C17"], H, "        let mut erasures = [0; GF_ORDER];\n\n        for i in 0..recovery_count {", "        let mut erasures: Box<[engine::GfElement; GF_ORDER]> = vec![0; GF_ORDER].into_boxed_slice().try_into().unwrap();\n\n        for i in 0..recovery_count {", "BENIGN refactor: decode keeps its 128 KiB erasure scratch on the heap (fixed size, not shard-proportional): must NOT be flagged")

m("m60-avx2-ifft-m23-sentinel-branch", ["C03","C15"], AV, """        if log_m23 == GF_MODULUS {
            utils::xor(s3, s2);
        } else {
            self.ifft_butterfly_partial(s2, s3, log_m23);
        }

        // SECOND LAYER""", """        if log_m23 == GF_MODULUS {
            utils::xor(s2, s3);
        } else {
            self.ifft_butterfly_partial(s2, s3, log_m23);
        }

        // SECOND LAYER""", "avx2 ifft: sentinel branch of the third multiplier xors the wrong way (only reachable with unaligned skew offsets; found uncovered by line coverage of the quick tiers)")

# ---- BENIGN refactors: the properties still hold; no check may flag them
ALLP = [f"C{i:02d}" for i in range(1,18)]
m("b01-detection-cached-in-static", ALLP, DE, """impl DefaultEngine {
    /// Creates new [`DefaultEngine`] by chosing and initializing the underlying engine.""", """#[cfg(any(target_arch = "x86", target_arch = "x86_64"))]
fn detected_features() -> (bool, bool) {
    // runtime detection is done once per process
    static DETECTED: std::sync::OnceLock<(bool, bool)> = std::sync::OnceLock::new();
    *DETECTED.get_or_init(|| {
        (
            is_x86_feature_detected!("avx2"),
            is_x86_feature_detected!("ssse3"),
        )
    })
}

impl DefaultEngine {
    /// Creates new [`DefaultEngine`] by chosing and initializing the underlying engine.""", "BENIGN: CPU detection cached process-wide (then used by new() and eval_poly below)")
m("b01b-detection-cached-used", ALLP, DE, """            if is_x86_feature_detected!("avx2") {
                return Self(Box::new(Avx2::new()));
            }

            if is_x86_feature_detected!("ssse3") {
                return Self(Box::new(Ssse3::new()));
            }""", """            if is_x86_feature_detected!("avx2") {
                return Self(Box::new(Avx2::new()));
            }

            if is_x86_feature_detected!("ssse3") {
                return Self(Box::new(Ssse3::new()));
            }
            // (placeholder so that b01 and b01b can be combined by the driver)""", "placeholder")
m("b02-resize-overallocates", ALLP, SH, """        self.data
            .resize(self.shard_count * self.shard_len_64, [0; 64]);""", """        let new_len = self.shard_count * self.shard_len_64;
        if new_len > self.data.capacity() {
            // grow with some headroom so that slightly larger configurations fit later
            self.data.reserve_exact(new_len + new_len / 4 - self.data.len());
        }
        self.data.resize(new_len, [0; 64]);""", "BENIGN: working space allocated with 25% headroom")
m("b04-nosimd-one-layer-fft", ALLP, NS, """    ) {
        self.fft_private(data, pos, size, truncated_size, skew_delta);
    }""", """    ) {
        // simple one-layer-at-a-time schedule (same contract: first truncated_size outputs are valid)
        let mut dist = size / 2;
        while dist > 0 {
            let mut r = 0;
            while r < truncated_size {
                let log_m = self.skew[r + dist + skew_delta - 1];
                for i in r..r + dist {
                    let (a, b) = data.dist2_mut(pos + i, dist);
                    if log_m != GF_MODULUS {
                        self.mul_add(a, b, log_m);
                    }
                    utils::xor(b, a);
                }
                r += dist * 2;
            }
            dist /= 2;
        }
    }""", "BENIGN: NoSimd::fft uses the one-layer schedule of Naive (different garbage beyond truncated_size, same contract)")
m("b05-encoder-reset-zeroes-everything", ALLP, EW, """        self.original_received_count = 0;
        self.shards.resize(work_count, shard_bytes.div_ceil(64));
    }""", """        self.original_received_count = 0;
        self.shards.resize(work_count, shard_bytes.div_ceil(64));
        self.shards.as_ref_mut().zero(..);
    }""", "BENIGN: explicit reset additionally zeroes the whole working space")
m("b06-decoder-bitmap-exact-regrow", ALLP, DW, """        self.received.clear();
        if self.received.len() < max_received_pos {
            self.received.grow(max_received_pos);
        }""", """        self.received.clear();
        if self.received.len() < max_received_pos {
            self.received.grow(max_received_pos.next_power_of_two());
        }""", "BENIGN: received bitmap grown to the next power of two")

json.dump(M, open(os.path.join(os.path.dirname(os.path.abspath(__file__)), "mutants.json"), "w"), indent=1)
print(len(M), "mutants")
