#!/bin/bash
# runs every quick check under several seeds from fresh processes; prints anything that is not a clean pass
cd "$(dirname "$0")/.."
for seed in "$@"; do
  for i in 01 02 03 04 05 06 07 08 09 10 11 12 13 14 15 16 17; do
    out=$(VERIF_SEED=$seed ./check C$i quick 2>&1); rc=$?
    if [ $rc -ne 0 ]; then echo "seed=$seed C$i exit=$rc"; echo "$out" | grep -E "VIOLATION|INCONCLUSIVE|message" | head -5; fi
  done
  echo "seed $seed done"
done
