#!/usr/bin/env python3
"""Mutation-sensitivity driver.

Runs hand-made mutants (tools/mutants.json) or patch files (seeded/<id>/patch.diff) against the
checks WITHOUT touching /repo: each lane has its own git worktree of /repo, its own copy of the
harness (path dependency rewritten) and its own target dir under /tmp/rsv-lanes, removed at the end.

usage: mutate.py [--lanes N] [--only id,id] [--tests] [--all-checks] [--patch file --props C01,C02]
"""
import argparse, json, os, re, shutil, subprocess, sys, time
from concurrent.futures import ThreadPoolExecutor

VERIF = os.environ.get("RSV_MUTATE_VERIF") or os.path.dirname(os.path.dirname(os.path.abspath(__file__)))
LANES = "/tmp/rsv-lanes"
ENV = dict(os.environ, CARGO_NET_OFFLINE="true")

def sh(cmd, cwd=None, env=None, timeout=3600):
    r = subprocess.run(cmd, shell=True, cwd=cwd, env=env or ENV, capture_output=True, text=True, timeout=timeout)
    return r.returncode, r.stdout + r.stderr

def lane_setup(n):
    d = f"{LANES}/{n}"
    if os.path.exists(d):
        lane_teardown(n)
    os.makedirs(d)
    rc, out = sh(f"git -C /repo worktree add --detach {d}/repo HEAD")
    assert rc == 0, out
    shutil.copy("/repo/Cargo.lock", f"{d}/repo/Cargo.lock")
    sh(f"rsync -a --exclude target --exclude fuzz {VERIF}/harness/ {d}/harness/")
    for f in ("rsv/Cargo.toml", "rsv-neon/Cargo.toml"):
        p = f"{d}/harness/{f}"
        s = open(p).read().replace('path = "/repo"', f'path = "{d}/repo"')
        open(p, "w").write(s)
    os.makedirs(f"{d}/verif/evidence", exist_ok=True)
    os.makedirs(f"{d}/verif/replays", exist_ok=True)
    # regress cases and known findings are part of the checks
    sh(f"rsync -a {VERIF}/regress {d}/verif/ ; cp {VERIF}/known-findings.txt {d}/verif/")
    return d

def lane_teardown(n):
    d = f"{LANES}/{n}"
    sh(f"git -C /repo worktree remove --force {d}/repo")
    shutil.rmtree(d, ignore_errors=True)
    sh("git -C /repo worktree prune")

def lane_env(d):
    e = dict(ENV, RSV_REPO=f"{d}/repo", RSV_VERIF_DIR=f"{d}/verif")
    return e

def apply_mutant(d, m):
    repo = f"{d}/repo"
    sh("git checkout -- . && git clean -fdq -e Cargo.lock", cwd=repo)
    if "patch" in m:
        rc, out = sh(f"git apply {m['patch']}", cwd=repo)
        return rc == 0, out
    p = f"{repo}/{m['file']}"
    s = open(p).read()
    cnt = s.count(m["old"])
    want = m.get("count", 1)
    if cnt != want:
        return False, f"pattern found {cnt} times, expected {want}"
    s = s.replace(m["old"], m["new"])
    open(p, "w").write(s)
    return True, ""

def run_demo(d, m):
    """demo must pass on the clean tree and fail with the change"""
    repo = f"{d}/repo"
    feat = f"--features {m['demo_features']}" if m.get("demo_features") else ""
    out = {}
    for label in ("without_change", "with_change"):
        sh("git checkout -- . && git clean -fdq -e Cargo.lock", cwd=repo)
        if label == "with_change":
            ok, o = apply_mutant(d, m)
            if not ok:
                return {"error": o}
        shutil.copy(m["demo"], f"{repo}/tests/seeded_demo.rs")
        rel = "--release" if m.get("demo_release") else ""
        rc, o = sh(f"cargo test --offline {rel} {feat} --test seeded_demo 2>&1 | grep -E '^test result|^error|^test .* (ok|FAILED)' | tail -12", cwd=repo, env=lane_env(d))
        passed = sum(int(x) for x in re.findall(r"(\d+) passed", o))
        failed = sum(int(x) for x in re.findall(r"(\d+) failed", o))
        out[label] = {"passed": passed, "failed": failed, "tail": o[-300:]}
        os.remove(f"{repo}/tests/seeded_demo.rs")
    out["confirmed"] = out["without_change"]["failed"] == 0 and out["without_change"]["passed"] > 0 and out["with_change"]["failed"] > 0
    return out

def run_one(d, m, run_tests, props, tier="quick"):
    res = {"id": m["id"], "note": m.get("note", ""), "targets": props}
    if m.get("demo"):
        res["demo"] = run_demo(d, m)
    ok, out = apply_mutant(d, m)
    if not ok:
        res["status"] = "apply-failed: " + out[:300]
        return res
    env = lane_env(d)
    if run_tests:
        t0 = time.time()
        rc, out = sh("cargo test --workspace --no-fail-fast --offline 2>&1 | grep -E '^test result|^error(\\[|:)|FAILED|panicked' | tail -30", cwd=f"{d}/repo", env=env)
        passed = sum(int(x) for x in re.findall(r"(\d+) passed", out))
        failed = sum(int(x) for x in re.findall(r"(\d+) failed", out))
        res["tests"] = {"passed": passed, "failed": failed, "compiles": "error" not in out or passed > 0, "s": round(time.time() - t0)}
        if passed < 109 or failed > 0:
            res["status"] = "killed-by-existing-tests" if (passed > 0 or "panicked" in out or "FAILED" in out) else "does-not-compile"
            res["tests"]["out"] = out[-400:]
            return res
    t0 = time.time()
    rc, out = sh("cargo build --release --offline -p rsv 2>&1 | tail -20", cwd=f"{d}/harness", env=env)
    if not os.path.exists(f"{d}/harness/target/release/rsv") or "error" in out:
        res["status"] = "harness-build-failed"
        res["out"] = out[-600:]
        return res
    res["build_s"] = round(time.time() - t0)
    res["checks"] = {}
    caught = []
    for pid in props:
        t0 = time.time()
        rc, out = sh(f"{d}/harness/target/release/rsv {pid} {tier}", cwd=f"{d}/harness", env=env, timeout=7200)
        line = [l for l in out.splitlines() if "message=" in l]
        res["checks"][pid] = {"exit": rc, "s": round(time.time() - t0), "msg": (line[0].strip()[:300] if line else "")}
        if rc == 1:
            caught.append(pid)
    res["caught_by"] = caught
    res["status"] = "caught" if caught else "MISSED"
    return res

ALL = [f"C{i:02d}" for i in range(1, 18)]

def main():
    ap = argparse.ArgumentParser()
    ap.add_argument("--lanes", type=int, default=4)
    ap.add_argument("--only", default="")
    ap.add_argument("--tests", action="store_true")
    ap.add_argument("--all-checks", action="store_true")
    ap.add_argument("--tier", default="quick")
    ap.add_argument("--patch")
    ap.add_argument("--demo")
    ap.add_argument("--demo-features", default="")
    ap.add_argument("--demo-release", action="store_true")
    ap.add_argument("--props", default="")
    ap.add_argument("--out", default=f"{VERIF}/mutants/results.json")
    ap.add_argument("--base", type=int, default=0, help="first lane number (use distinct bases for concurrent invocations)")
    a = ap.parse_args()
    if a.patch:
        muts = [{"id": os.path.basename(os.path.dirname(os.path.abspath(a.patch))) or "patch", "patch": os.path.abspath(a.patch), "props": a.props.split(",") if a.props else ALL, "demo": os.path.abspath(a.demo) if a.demo else None, "demo_features": a.demo_features, "demo_release": a.demo_release}]
    else:
        muts = json.load(open(f"{VERIF}/tools/mutants.json"))
        if a.only:
            sel = set(a.only.split(","))
            muts = [m for m in muts if m["id"] in sel]
    lanes = min(a.lanes, len(muts))
    os.makedirs(os.path.dirname(a.out), exist_ok=True)
    queue = list(muts)
    results = []
    def worker(n):
        d = lane_setup(n)
        try:
            while queue:
                m = queue.pop(0)
                props = ALL if a.all_checks else m.get("props", ALL)
                r = run_one(d, m, a.tests, props, a.tier)
                results.append(r)
                print(json.dumps({k: r.get(k) for k in ("id", "status", "caught_by", "tests", "demo")}), flush=True)
        finally:
            lane_teardown(n)
    with ThreadPoolExecutor(lanes) as ex:
        list(ex.map(worker, range(a.base, a.base + lanes)))
    results.sort(key=lambda r: r["id"])
    old = []
    if os.path.exists(a.out) and (a.only or a.patch):
        old = [r for r in json.load(open(a.out)) if r["id"] not in {x["id"] for x in results}]
    json.dump(sorted(old + results, key=lambda r: r["id"]), open(a.out, "w"), indent=1)
    missed = [r["id"] for r in results if r["status"] == "MISSED"]
    print("MISSED:", missed)

if __name__ == "__main__":
    main()
