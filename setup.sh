#!/bin/bash
# setup_cmd: offline build of the harness from files on disk only.
set -eu
HERE="$(cd "$(dirname "${BASH_SOURCE[0]}")" && pwd)"
export CARGO_NET_OFFLINE=true
cd "$HERE/harness"
mkdir -p target "$HERE/evidence" "$HERE/replays"
cargo build --release --offline -p rsv
echo "setup ok"
