#!/bin/bash
# setup_cmd: offline build of the harness from files on disk only.
set -eu
HERE="$(cd "$(dirname "${BASH_SOURCE[0]}")" && pwd)"
export CARGO_NET_OFFLINE=true
cd "$HERE/harness"
mkdir -p target "$HERE/evidence" "$HERE/replays"
cargo build --release --offline -p rsv
# second build profile (no debug assertions, wrapping arithmetic): every check repeats a quarter of its cases there
cargo build --profile wrap --offline -p rsv || echo "NOTE: second profile did not build; that pass will be skipped"
echo "setup ok"
