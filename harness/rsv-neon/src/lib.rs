//! The repository's Neon engine source, compiled against emulated intrinsics.
#![allow(clippy::all, unused_unsafe, dead_code, rustdoc::broken_intra_doc_links)]

pub mod neon_emu;

mod ported {
    include!(concat!(env!("OUT_DIR"), "/engine_neon_ported.rs"));
}

pub use ported::Neon as NeonEmu;
