//! The seven AArch64 Neon intrinsics used by engine_neon.rs, written from the Arm
//! pseudo-code on plain byte arrays. Trusted base of the Neon sub-checks.
#![allow(non_camel_case_types, clippy::missing_safety_doc)]

#[derive(Clone, Copy, Debug, PartialEq, Eq)]
#[repr(transparent)]
pub struct uint8x16_t(pub [u8; 16]);

/// LD1 {Vt.16B}, [Xn]: 16 consecutive bytes, no alignment requirement.
#[inline(always)]
pub unsafe fn vld1q_u8(ptr: *const u8) -> uint8x16_t {
    let mut v = [0u8; 16];
    std::ptr::copy_nonoverlapping(ptr, v.as_mut_ptr(), 16);
    uint8x16_t(v)
}

/// ST1 {Vt.16B}, [Xn]
#[inline(always)]
pub unsafe fn vst1q_u8(ptr: *mut u8, a: uint8x16_t) {
    std::ptr::copy_nonoverlapping(a.0.as_ptr(), ptr, 16);
}

/// DUP Vd.16B, rn
#[inline(always)]
pub unsafe fn vdupq_n_u8(value: u8) -> uint8x16_t {
    uint8x16_t([value; 16])
}

/// AND Vd.16B, Vn.16B, Vm.16B
#[inline(always)]
pub unsafe fn vandq_u8(a: uint8x16_t, b: uint8x16_t) -> uint8x16_t {
    let mut r = [0u8; 16];
    for i in 0..16 {
        r[i] = a.0[i] & b.0[i];
    }
    uint8x16_t(r)
}

/// EOR Vd.16B, Vn.16B, Vm.16B
#[inline(always)]
pub unsafe fn veorq_u8(a: uint8x16_t, b: uint8x16_t) -> uint8x16_t {
    let mut r = [0u8; 16];
    for i in 0..16 {
        r[i] = a.0[i] ^ b.0[i];
    }
    uint8x16_t(r)
}

/// USHR Vd.16B, Vn.16B, #n : per-byte logical shift right, 1 <= n <= 8
/// (the real intrinsic takes n as a const generic; the call syntax `f(a, n)` is the same).
#[inline(always)]
pub unsafe fn vshrq_n_u8(a: uint8x16_t, n: i32) -> uint8x16_t {
    assert!((1..=8).contains(&n), "vshrq_n_u8: shift out of range");
    let mut r = [0u8; 16];
    if n < 8 {
        for i in 0..16 {
            r[i] = a.0[i] >> n;
        }
    }
    uint8x16_t(r)
}

/// TBL Vd.16B, {Vn.16B}, Vm.16B : table look-up; an index >= 16 yields 0.
#[inline(always)]
pub unsafe fn vqtbl1q_u8(t: uint8x16_t, idx: uint8x16_t) -> uint8x16_t {
    let mut r = [0u8; 16];
    for i in 0..16 {
        let j = idx.0[i] as usize;
        r[i] = if j < 16 { t.0[j] } else { 0 };
    }
    uint8x16_t(r)
}
