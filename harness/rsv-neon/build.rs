// Ports /repo/src/engine/engine_neon.rs to the host by textual substitution so that the
// Neon kernels can be executed on emulated intrinsics (DESIGN.md 2.4). No repository change.
use std::{env, fs, path::PathBuf};

fn main() {
    // RSV_REPO is only set by the mutation-testing lanes (tools/mutate.py); checks always use /repo
    println!("cargo:rerun-if-env-changed=RSV_REPO");
    let repo = env::var("RSV_REPO").unwrap_or_else(|_| "/repo".to_string());
    let src_path = format!("{repo}/src/engine/engine_neon.rs");
    let src_path = src_path.as_str();
    println!("cargo:rerun-if-changed={src_path}");
    println!("cargo:rerun-if-changed=build.rs");

    let src = fs::read_to_string(src_path).expect("engine_neon.rs must be readable");

    let mut out = String::new();
    let mut dropped_target_feature = 0;
    for line in src.lines() {
        let t = line.trim();
        if t.starts_with("#[target_feature(") {
            dropped_target_feature += 1;
            continue;
        }
        let line = line
            .replace("use crate::engine::", "use reed_solomon_simd::engine::")
            .replace("crate::engine::", "reed_solomon_simd::engine::")
            .replace("use std::arch::aarch64::*;", "use crate::neon_emu::*;")
            .replace("use core::arch::aarch64::*;", "use crate::neon_emu::*;");
        // hook lines (if a tree ever adds them) refer to crate::verif_hooks
        let line = line.replace("crate::verif_hooks::", "reed_solomon_simd::verif_hooks::");
        out.push_str(&line);
        out.push('\n');
    }
    assert!(
        dropped_target_feature > 0,
        "no #[target_feature] lines found; engine_neon.rs layout changed"
    );

    let dst = PathBuf::from(env::var("OUT_DIR").unwrap()).join("engine_neon_ported.rs");
    fs::write(dst, out).unwrap();
}
