//! RAII access to the verif-hooks of the crate under test.

use reed_solomon_simd::verif_hooks as vh;

/// Arms poisoning for the current thread; disarms on drop (also on unwind).
pub struct PoisonGuard;

impl PoisonGuard {
    pub fn arm(seed: u64) -> PoisonGuard {
        vh::set_poison(seed | 1);
        PoisonGuard
    }
}

impl Drop for PoisonGuard {
    fn drop(&mut self) {
        vh::set_poison(0);
    }
}

pub fn poison_stats() -> (u64, u64) {
    vh::poison_stats()
}

/// Restricts the feature mask for the current thread; restores "all" on drop.
pub struct MaskGuard;

impl MaskGuard {
    pub fn set(mask: u8) -> MaskGuard {
        vh::set_feature_mask(mask);
        MaskGuard
    }
}

impl Drop for MaskGuard {
    fn drop(&mut self) {
        vh::set_feature_mask(vh::MASK_ALL);
    }
}

pub use vh::{take_trace, ISA_AVX2, ISA_SSSE3, MASK_ALL, MASK_AVX2, MASK_SSSE3, PRIM_EVAL_POLY, PRIM_FFT, PRIM_IFFT, PRIM_MUL};

pub fn trace_bit(isa: u32, prim: u32) -> u32 {
    1 << (isa * 4 + prim)
}
