//! Counting global allocator (C17). Recording is per thread and off by default.

use std::alloc::{GlobalAlloc, Layout, System};
use std::cell::Cell;

pub struct Counting;

pub const BIG: usize = 1024;

thread_local! {
    static ENABLED: Cell<bool> = const { Cell::new(false) };
    static BIG_COUNT: Cell<u64> = const { Cell::new(0) };
    static BIG_MAX: Cell<usize> = const { Cell::new(0) };
    static BIG_SECOND: Cell<usize> = const { Cell::new(0) };
    static SMALL_COUNT: Cell<u64> = const { Cell::new(0) };
    static TOTAL_BYTES: Cell<u64> = const { Cell::new(0) };
    static SIZES: Cell<[usize; 12]> = const { Cell::new([0; 12]) };
    static NSIZES: Cell<usize> = const { Cell::new(0) };
}

#[inline]
fn note(size: usize) {
    // try_with: never touch TLS during thread teardown
    let _ = ENABLED.try_with(|e| {
        if e.get() {
            let _ = TOTAL_BYTES.try_with(|c| c.set(c.get() + size as u64));
            let _ = NSIZES.try_with(|n| {
                let i = n.get();
                n.set(i + 1);
                if i < 12 {
                    let _ = SIZES.try_with(|a| {
                        let mut v = a.get();
                        v[i] = size;
                        a.set(v);
                    });
                }
            });
            if size >= BIG {
                let _ = BIG_COUNT.try_with(|c| c.set(c.get() + 1));
                let _ = BIG_MAX.try_with(|m| {
                    if size > m.get() {
                        let _ = BIG_SECOND.try_with(|s| s.set(m.get()));
                        m.set(size);
                    } else {
                        let _ = BIG_SECOND.try_with(|s| {
                            if size > s.get() {
                                s.set(size)
                            }
                        });
                    }
                });
            } else {
                let _ = SMALL_COUNT.try_with(|c| c.set(c.get() + 1));
            }
        }
    });
}

unsafe impl GlobalAlloc for Counting {
    unsafe fn alloc(&self, layout: Layout) -> *mut u8 {
        note(layout.size());
        System.alloc(layout)
    }
    unsafe fn dealloc(&self, ptr: *mut u8, layout: Layout) {
        System.dealloc(ptr, layout)
    }
    unsafe fn alloc_zeroed(&self, layout: Layout) -> *mut u8 {
        note(layout.size());
        System.alloc_zeroed(layout)
    }
    unsafe fn realloc(&self, ptr: *mut u8, layout: Layout, new_size: usize) -> *mut u8 {
        // growing in place or moving: either way memory proportional to new_size is obtained
        if new_size > layout.size() {
            note(new_size);
        }
        System.realloc(ptr, layout, new_size)
    }
}

#[global_allocator]
static GLOBAL: Counting = Counting;

#[derive(Clone, Copy, Debug, Default, PartialEq, Eq)]
pub struct Seen {
    /// number of allocations (or growing reallocations) of >= 1 KiB
    pub big: u64,
    pub max: usize,
    pub second: usize,
    pub small: u64,
    /// sum of the sizes of all allocations and growing reallocations
    pub bytes: u64,
    /// number of allocations and the sizes of the first 12 of them
    pub count: usize,
    pub sizes: [usize; 12],
}

/// Runs `f` with recording on for this thread; returns what was allocated inside.
pub fn measure<T>(f: impl FnOnce() -> T) -> (T, Seen) {
    struct Off;
    impl Drop for Off {
        fn drop(&mut self) {
            ENABLED.with(|e| e.set(false));
        }
    }
    BIG_COUNT.with(|c| c.set(0));
    BIG_MAX.with(|c| c.set(0));
    BIG_SECOND.with(|c| c.set(0));
    SMALL_COUNT.with(|c| c.set(0));
    TOTAL_BYTES.with(|c| c.set(0));
    NSIZES.with(|c| c.set(0));
    SIZES.with(|c| c.set([0; 12]));
    ENABLED.with(|e| e.set(true));
    let off = Off;
    let v = f();
    drop(off);
    let seen = Seen {
        big: BIG_COUNT.with(Cell::get),
        max: BIG_MAX.with(Cell::get),
        second: BIG_SECOND.with(Cell::get),
        small: SMALL_COUNT.with(Cell::get),
        bytes: TOTAL_BYTES.with(Cell::get),
        count: NSIZES.with(Cell::get),
        sizes: SIZES.with(Cell::get),
    };
    (v, seen)
}
