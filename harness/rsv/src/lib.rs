pub mod engines;
pub mod gen;
pub mod history;
pub mod hooks;
pub mod prims;
pub mod props;
pub mod refmodel;
pub mod runner;
