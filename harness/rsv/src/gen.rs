//! Shared generators (DESIGN.md 2.6). Construction, not rejection.
//!
//! Large objects (shard contents, received sets) are described by compact *specs* that are
//! expanded deterministically, so cases stay small in replay files and shrink through the
//! counts rather than through tens of thousands of bytes.

use crate::engines::{Eng, Given, Kind};
use crate::runner::Tier;
use proptest::prelude::*;
use proptest::strategy::BoxedStrategy;
use serde::{Deserialize, Serialize};

// ----------------------------------------------------------------------
// deterministic expander PRNG (xorshift64*); every seed comes from a proptest draw

#[derive(Clone)]
pub struct Xs(pub u64);

impl Xs {
    pub fn new(seed: u64) -> Xs {
        Xs(seed.wrapping_mul(0x9E3779B97F4A7C15) | 1)
    }
    #[inline]
    pub fn next(&mut self) -> u64 {
        let mut x = self.0;
        x ^= x >> 12;
        x ^= x << 25;
        x ^= x >> 27;
        self.0 = x;
        x.wrapping_mul(0x2545F4914F6CDD1D)
    }
    pub fn below(&mut self, n: usize) -> usize {
        if n == 0 {
            0
        } else {
            ((self.next() >> 11) % n as u64) as usize
        }
    }
    pub fn fill(&mut self, buf: &mut [u8]) {
        for c in buf.chunks_mut(8) {
            let v = self.next().to_le_bytes();
            c.copy_from_slice(&v[..c.len()]);
        }
    }
    pub fn shuffle<T>(&mut self, v: &mut [T]) {
        for i in (1..v.len()).rev() {
            let j = self.below(i + 1);
            v.swap(i, j);
        }
    }
}

// ----------------------------------------------------------------------
// configurations

#[derive(Clone, Copy, Debug, PartialEq, Eq, Hash, Serialize, Deserialize)]
pub struct Cfg {
    pub k: usize,
    pub r: usize,
    pub b: usize,
}

impl Cfg {
    pub fn positions(&self, kind: Kind) -> usize {
        // decoder work positions (for cost estimates only)
        let (m, other) = if kind.is_high(self.k, self.r) {
            (self.r.next_power_of_two(), self.k)
        } else {
            (self.k.next_power_of_two(), self.r)
        };
        (m + other).next_power_of_two()
    }
}

/// (bounded side, other side) for the cheap classes.
pub fn bounded_other(max_medium: usize) -> BoxedStrategy<(usize, usize, &'static str)> {
    let tiny = (1usize..=8, 1usize..=8).prop_map(|(a, b)| (a, b, "tiny"));
    let small = (1usize..=64, 1usize..=64).prop_map(|(a, b)| (a, b, "small"));
    let edge = |maxa: u32| {
        (0u32..=maxa, 0usize..3).prop_map(|(a, d)| {
            let p = 1usize << a;
            (p + d).saturating_sub(1).max(1)
        })
    };
    let pow2edge = (edge(7), edge(8)).prop_map(|(a, b)| (a, b, "pow2edge"));
    let multichunk = (0u32..=6, 0usize..64, 1usize..=6, 0usize..4, 0usize..64).prop_map(
        |(a, braw, c, dsel, drnd)| {
            let m = 1usize << a;
            // bounded in (m/2, m]  => next_power_of_two(bounded) == m
            let lo = m / 2 + 1;
            let bounded = lo + braw % (m - lo + 1);
            let other = match dsel {
                0 => (c * m).saturating_sub(1),
                1 => c * m,
                2 => c * m + 1,
                _ => c * m + drnd % m,
            }
            .max(1);
            (bounded, other, "multichunk")
        },
    );
    let medium = (1usize..=max_medium, 1usize..=max_medium).prop_map(|(a, b)| (a, b, "medium"));
    // thousands of shards that are NOT envelope corners: power-of-two neighbourhoods and arbitrary counts
    // (bounded + other stays far inside the envelope; 8k..64k working positions, ~5-40 ms per round)
    let large = (
        prop_oneof![(8u32..=12, 0usize..5).prop_map(|(a, d)| ((1usize << a) + d).saturating_sub(2).max(1)), 1usize..=5000],
        prop_oneof![(11u32..=14, 0usize..5).prop_map(|(a, d)| ((1usize << a) + d).saturating_sub(2)), 2000usize..=24000],
    )
        .prop_map(|(a, b)| (a, b, "large"));
    // the large class costs ~20x a medium case: its weight follows max_medium (callers that keep cases cheap pass a small one)
    let wl = if max_medium >= 1000 { 1 } else { 0 };
    prop_oneof![
        9 => tiny,
        9 => small,
        9 => pow2edge,
        12 => multichunk,
        3 => medium,
        wl => large,
    ]
    .boxed()
}

/// Supported (k, r) for the given codec family, from the cheap classes; third item = class label.
pub fn counts(kind: Kind, max_medium: usize) -> BoxedStrategy<(usize, usize, &'static str)> {
    (bounded_other(max_medium), 0u8..10)
        .prop_map(move |((bounded, other, class), v)| match kind {
            // one case in five uses the fixed-rate family "the other way round" (high rate with few originals and
            // many recovery shards, low rate with many originals): legal wherever the envelope allows it
            Kind::High if v < 2 && kind.env(bounded, other) => (bounded, other, class),
            Kind::Low if v < 2 && kind.env(other, bounded) => (other, bounded, class),
            Kind::High => (other, bounded, class),
            Kind::Low => (bounded, other, class),
            Kind::Rs | Kind::Default => {
                if v < 5 {
                    (other, bounded, class)
                } else {
                    (bounded, other, class)
                }
            }
        })
        .boxed()
}

/// All staircase corners of the envelope for a family, with neighbours that are still inside.
pub fn envelope_corners(kind: Kind) -> Vec<(usize, usize)> {
    let mut v = Vec::new();
    let mut push = |k: usize, r: usize| {
        if kind.env(k, r) && !v.contains(&(k, r)) {
            v.push((k, r));
        }
    };
    for n in 0..16u32 {
        let p = 1usize << n;
        let q = 65536 - p;
        for (bounded, other) in [
            (p, q),
            (p, q - 1),
            (p.saturating_sub(1).max(1), q),
            (p / 2 + 1, q),
            (p, 1),
            (p, q / 2 + 1),
        ] {
            match kind {
                Kind::High => push(other, bounded),
                Kind::Low => push(bounded, other),
                _ => {
                    push(other, bounded);
                    push(bounded, other);
                }
            }
        }
    }
    push(32768, 32768);
    push(65535, 1);
    push(1, 65535);
    push(1, 1);
    v
}

pub const SIZES: [usize; 17] = [
    2, 4, 6, 30, 32, 34, 62, 64, 66, 126, 128, 130, 190, 192, 194, 256, 258,
];

pub fn shard_size() -> BoxedStrategy<usize> {
    prop_oneof![
        12 => (0usize..SIZES.len()).prop_map(|i| SIZES[i]),
        8 => (1usize..=165).prop_map(|h| h * 2),
        2 => (512usize..=2048).prop_map(|h| h * 2),
        // several KiB up to 192 KiB, all residues mod 64 (blocked kernels, size thresholds)
        1 => (2049usize..=98304).prop_map(|h| h * 2),
    ]
    .boxed()
}

/// shard sizes for configurations with many positions (keeps a case in the millisecond range)
pub fn shard_size_small() -> BoxedStrategy<usize> {
    prop_oneof![
        3 => Just(2usize),
        2 => (1usize..=33).prop_map(|h| h * 2),
        1 => Just(64usize),
    ]
    .boxed()
}

pub fn size_class(b: usize) -> &'static str {
    if b < 64 {
        "lt64"
    } else if b % 64 == 0 {
        "mult64"
    } else {
        "blocks+tail"
    }
}

pub fn cfg(kind: Kind, max_medium: usize) -> BoxedStrategy<(Cfg, &'static str)> {
    counts(kind, max_medium)
        .prop_flat_map(move |(k, r, class)| {
            let big = k + r > 700;
            // many shards AND shards of several blocks at once (only for callers that accept the large class):
            // 130 B .. 2.2 KiB (sometimes up to 6.4 KiB), any residue mod 64, total shard data capped at 8 MiB (24 MiB when max_medium >= 2000)
            let s = if !big {
                shard_size()
            } else if max_medium >= 1000 {
                prop_oneof![12 => shard_size_small(), 2 => (65usize..=1100).prop_map(|h| h * 2), 1 => (1101usize..=3200).prop_map(|h| h * 2)].boxed()
            } else {
                shard_size_small()
            };
            s.prop_map(move |b| {
                let n = k + r;
                let b = if big && b > 128 {
                    b.min(((if max_medium >= 2000 { 24usize } else { 8 }) << 20) / n / 2 * 2).max(2)
                } else if n * b > (2 << 20) {
                    // keep an ordinary case below ~2 MiB of shard data
                    2 + b % 256 / 2 * 2
                } else {
                    b
                };
                (Cfg { k, r, b }, class)
            })
        })
        .boxed()
}

pub fn kind_any() -> BoxedStrategy<Kind> {
    prop_oneof![
        1 => Just(Kind::Rs),
        3 => Just(Kind::Default),
        3 => Just(Kind::High),
        3 => Just(Kind::Low),
    ]
    .boxed()
}

pub fn kind_rate() -> BoxedStrategy<Kind> {
    prop_oneof![Just(Kind::Default), Just(Kind::High), Just(Kind::Low)].boxed()
}

pub fn engine() -> BoxedStrategy<Eng> {
    any::<u8>().prop_map(crate::engines::pick_engine).boxed()
}

/// engine valid for a kind (Rs is always Default)
pub fn engine_for(kind: Kind) -> BoxedStrategy<Eng> {
    if kind == Kind::Rs {
        Just(Eng::Default).boxed()
    } else {
        engine()
    }
}

// ----------------------------------------------------------------------
// data

#[derive(Clone, Copy, Debug, PartialEq, Eq, Hash, Serialize, Deserialize)]
pub struct DataSpec {
    pub mode: u8,
    pub seed: u64,
}

pub fn data_spec() -> BoxedStrategy<DataSpec> {
    (
        prop_oneof![10 => Just(0u8), 4 => Just(1u8), 2 => Just(2u8), 2 => Just(3u8), 4 => Just(4u8), 2 => Just(5u8), 1 => Just(6u8), 3 => Just(7u8), 2 => Just(8u8), 2 => Just(9u8)],
        any::<u64>(),
    )
        .prop_map(|(mode, seed)| DataSpec { mode, seed })
        .boxed()
}

impl DataSpec {
    /// k shards of b bytes
    pub fn expand(&self, k: usize, b: usize) -> Vec<Vec<u8>> {
        let mut rng = Xs::new(self.seed ^ 0xD47A);
        let mut out: Vec<Vec<u8>> = Vec::with_capacity(k);
        match self.mode {
            // random bytes
            0 => {
                for _ in 0..k {
                    let mut s = vec![0u8; b];
                    rng.fill(&mut s);
                    out.push(s);
                }
            }
            // random mixed with all-zero and all-0xFF shards
            1 => {
                for _ in 0..k {
                    let mut s = vec![0u8; b];
                    match rng.below(4) {
                        0 => {}
                        1 => s.fill(0xFF),
                        _ => rng.fill(&mut s),
                    }
                    out.push(s);
                }
            }
            // a single non-zero symbol in the whole data set
            2 => {
                for _ in 0..k {
                    out.push(vec![0u8; b]);
                }
                let i = rng.below(k);
                let slot = rng.below(b / 2);
                let v = (rng.next() as u16).max(1);
                crate::refmodel::slot_set(&mut out[i], slot, v);
            }
            // repeated shards
            3 => {
                let mut s = vec![0u8; b];
                rng.fill(&mut s);
                for i in 0..k {
                    if i % 3 == 2 {
                        rng.fill(&mut s);
                    }
                    out.push(s.clone());
                }
            }
            // block-sparse: every 64-byte block of every shard is all-zero with probability 1/2
            5 => {
                for _ in 0..k {
                    let mut s = vec![0u8; b];
                    for blk in s.chunks_mut(64) {
                        if rng.below(2) == 0 {
                            rng.fill(blk);
                        }
                    }
                    out.push(s);
                }
            }
            // zero prefix: the first 1..3 blocks of every shard are zero, the rest random
            6 => {
                for _ in 0..k {
                    let mut s = vec![0u8; b];
                    let z = (64 * (1 + rng.below(3))).min(b);
                    rng.fill(&mut s[z..]);
                    out.push(s);
                }
            }
            // restricted byte values: every byte ANDed with one mask per data set (7-bit text, nibbles, single bits ...)
            7 => {
                const MASKS: [u8; 10] = [0x7F, 0x7F, 0x0F, 0xF0, 0x01, 0x80, 0x55, 0xFE, 0x3F, 0x03];
                let m = MASKS[rng.below(MASKS.len())];
                for _ in 0..k {
                    let mut s = vec![0u8; b];
                    rng.fill(&mut s);
                    for x in s.iter_mut() {
                        *x &= m;
                    }
                    out.push(s);
                }
            }
            // tiny alphabet: 1..4 distinct byte values in the whole data set (constant shards included)
            8 => {
                let n = 1 + rng.below(4);
                let alpha: Vec<u8> = (0..n).map(|_| rng.next() as u8).collect();
                for _ in 0..k {
                    let mut s = vec![0u8; b];
                    for x in s.iter_mut() {
                        *x = alpha[rng.below(n)];
                    }
                    out.push(s);
                }
            }
            // symbols below 256 or multiples of 256: in the documented byte placement the 32 high (or the 32 low)
            // bytes of every 64-byte block are zero, block by block
            9 if self.seed % 2 == 0 => {
                // 16-symbol column groups: slots 0..16 / 16..32 of every block, low and high bytes separately, zeroed by
                // one mask for the whole data set (the same columns in every shard) or by a mask per block
                let col = 1 + rng.below(14);
                let per_block = rng.below(2) == 0;
                for _ in 0..k {
                    let mut s = vec![0u8; b];
                    rng.fill(&mut s);
                    for slot in 0..b / 2 {
                        let m = if per_block { 1 + ((self.seed >> 8) as usize ^ (slot / 32).wrapping_mul(0x9E37)) % 14 } else { col };
                        let half = (slot % 32) / 16; // 0: slots 0..16, 1: slots 16..32
                        let mut v = crate::refmodel::slot_get(&s, slot);
                        if m >> half & 1 == 1 {
                            v &= 0xFF00;
                        }
                        if m >> (2 + half) & 1 == 1 {
                            v &= 0x00FF;
                        }
                        crate::refmodel::slot_set(&mut s, slot, v);
                    }
                    out.push(s);
                }
            }
            9 => {
                let which = rng.below(3);
                for _ in 0..k {
                    let mut s = vec![0u8; b];
                    rng.fill(&mut s);
                    for slot in 0..b / 2 {
                        let v = crate::refmodel::slot_get(&s, slot);
                        let blk = slot / 32;
                        let keep_low = match which {
                            0 => true,
                            1 => false,
                            _ => blk % 2 == 0,
                        };
                        crate::refmodel::slot_set(&mut s, slot, if keep_low { v & 0x00FF } else { v & 0xFF00 });
                    }
                    out.push(s);
                }
            }
            // special symbols 0x0000 / 0x0001 / 0xFFFF / random
            _ => {
                for _ in 0..k {
                    let mut s = vec![0u8; b];
                    for slot in 0..b / 2 {
                        let v = match rng.below(5) {
                            0 => 0x0000,
                            1 => 0x0001,
                            2 => 0xFFFF,
                            3 => 0x8000,
                            _ => rng.next() as u16,
                        };
                        crate::refmodel::slot_set(&mut s, slot, v);
                    }
                    out.push(s);
                }
            }
        }
        out
    }
}

// ----------------------------------------------------------------------
// received sets

#[derive(Clone, Copy, Debug, PartialEq, Eq, Hash, Serialize, Deserialize)]
pub struct RecvSpec {
    /// 0: exactly k (maximum loss); 1: k+1; 2: uniform in k..=k+r; 3: everything
    pub n_mode: u8,
    /// loss pattern family, see `expand`
    pub pattern: u8,
    /// arrival order family
    pub order: u8,
    pub seed: u64,
}

pub const PATTERN_NAMES: [&str; 10] = [
    "uniform",
    "recovery-first",
    "originals-first",
    "burst",
    "strided",
    "chunk",
    "head",
    "tail",
    "compact+outliers",
    "compact-high+outliers",
];

pub fn recv_spec() -> BoxedStrategy<RecvSpec> {
    (
        prop_oneof![4 => Just(0u8), 1 => Just(1u8), 2 => Just(2u8), 1 => Just(3u8)],
        0u8..10,
        0u8..5,
        any::<u64>(),
    )
        .prop_map(|(n_mode, pattern, order, seed)| RecvSpec {
            n_mode,
            pattern,
            order,
            seed,
        })
        .boxed()
}

impl RecvSpec {
    /// number of shards given
    pub fn n(&self, k: usize, r: usize) -> usize {
        let mut rng = Xs::new(self.seed ^ 0x5EC0);
        match self.n_mode {
            0 => k,
            1 => (k + 1).min(k + r),
            2 => k + rng.below(r + 1),
            _ => k + r,
        }
    }

    /// The set of shards given, as a sorted list (originals first, ascending).
    pub fn given_set(&self, k: usize, r: usize) -> Vec<Given> {
        let n = self.n(k, r);
        let lost = k + r - n; // <= r
        let mut rng = Xs::new(self.seed ^ 0x1057);
        let mut lost_orig = vec![false; k];
        let mut lost_rec = vec![false; r];
        let lose_random = |flags: &mut Vec<bool>, count: usize, rng: &mut Xs| {
            let mut idx: Vec<usize> = (0..flags.len()).filter(|&i| !flags[i]).collect();
            rng.shuffle(&mut idx);
            for &i in idx.iter().take(count) {
                flags[i] = true;
            }
        };
        match self.pattern {
            // uniform over all k + r
            0 => {
                let mut idx: Vec<usize> = (0..k + r).collect();
                rng.shuffle(&mut idx);
                for &i in idx.iter().take(lost) {
                    if i < k {
                        lost_orig[i] = true;
                    } else {
                        lost_rec[i - k] = true;
                    }
                }
            }
            // lose originals first (decoder works from recovery shards)
            1 => {
                let lo = lost.min(k);
                lose_random(&mut lost_orig, lo, &mut rng);
                lose_random(&mut lost_rec, lost - lo, &mut rng);
            }
            // lose recovery first
            2 => {
                let lr = lost.min(r);
                lose_random(&mut lost_rec, lr, &mut rng);
                lose_random(&mut lost_orig, lost - lr, &mut rng);
            }
            // contiguous (cyclic) burst in the combined order
            3 => {
                let start = rng.below(k + r);
                for d in 0..lost {
                    let i = (start + d) % (k + r);
                    if i < k {
                        lost_orig[i] = true;
                    } else {
                        lost_rec[i - k] = true;
                    }
                }
            }
            // strided
            4 => {
                let stride = 2 + rng.below(7);
                let mut taken = 0;
                let mut off = 0;
                while taken < lost && off < stride {
                    let mut i = off;
                    while i < k + r && taken < lost {
                        if i < k {
                            lost_orig[i] = true;
                        } else {
                            lost_rec[i - k] = true;
                        }
                        taken += 1;
                        i += stride;
                    }
                    off += 1;
                }
            }
            // a chunk-aligned block of originals
            5 => {
                let m = k.min(r).next_power_of_two().max(1);
                let chunks = k.div_ceil(m);
                let c = rng.below(chunks);
                let start = c * m;
                let len = lost.min(k - start).min(m);
                for i in start..start + len {
                    lost_orig[i] = true;
                }
                let rest = lost - len;
                let lr = rest.min(r);
                lose_random(&mut lost_rec, lr, &mut rng);
                lose_random(&mut lost_orig, rest - lr, &mut rng);
            }
            // head of the originals, then head of recovery
            6 => {
                let lo = lost.min(k);
                for f in lost_orig.iter_mut().take(lo) {
                    *f = true;
                }
                for f in lost_rec.iter_mut().take(lost - lo) {
                    *f = true;
                }
            }
            // a compact block of given shards plus a few isolated outliers at extreme / aligned positions
            // (8: block at the low end of originals ++ recovery, 9: block at the high end)
            8 | 9 => {
                let total = k + r;
                let mut given = vec![false; total];
                let mut ng = 0usize;
                // outliers: last recovery, last original, first recovery, neighbours of powers of two
                let mut cand: Vec<usize> = vec![total - 1, k - 1, k, 0];
                // shards that sit on power-of-two positions of the working space: low-rate layout
                // (recovery at next_pow2(k) + j) and high-rate layout (originals at next_pow2(r) + i)
                let (cl, ch) = (k.next_power_of_two(), r.next_power_of_two());
                for a in 1..=16u32 {
                    let p = 1usize << a;
                    for q in [p - 1, p] {
                        if q >= cl && q - cl < r {
                            cand.push(k + (q - cl));
                        }
                        if q >= ch && q - ch < k {
                            cand.push(q - ch);
                        }
                        // multiples of the chunk size minus one / plus zero
                        if a <= 6 {
                            let m = cl * a as usize;
                            if m >= cl && m - cl < r {
                                cand.push(k + (m - cl));
                            }
                        }
                    }
                }
                for a in [6u32, 8, 10, 11, 12, 13, 14] {
                    let p = 1usize << a;
                    for d in [p - 1, p, p + 1] {
                        if d < r {
                            cand.push(k + d);
                        }
                        if d < k {
                            cand.push(d);
                        }
                    }
                }
                let n_out = (1 + rng.below(3)).min(n.saturating_sub(1));
                // the far end first (half of the time), then seeded picks
                let mut outs = if rng.below(2) == 0 { vec![if self.pattern == 8 { total - 1 } else { 0 }] } else { vec![cand[rng.below(cand.len())]] };
                while outs.len() < n_out {
                    outs.push(cand[rng.below(cand.len())]);
                }
                for &o in &outs {
                    if !given[o] && ng < n {
                        given[o] = true;
                        ng += 1;
                    }
                }
                // compact block: skip a few originals so that something has to be restored
                let skip = (1 + rng.below(8)).min(k).min(r);
                let order: Vec<usize> = if self.pattern == 8 { (skip.min(total - 1)..total).chain(0..skip).collect() } else { (0..total - skip.min(total - 1)).rev().chain(total - skip..total).collect() };
                for i in order {
                    if ng >= n {
                        break;
                    }
                    if !given[i] {
                        given[i] = true;
                        ng += 1;
                    }
                }
                for i in 0..k {
                    lost_orig[i] = !given[i];
                }
                for i in 0..r {
                    lost_rec[i] = !given[k + i];
                }
            }
            // tail of the originals, then tail of recovery
            _ => {
                let lo = lost.min(k);
                for i in k - lo..k {
                    lost_orig[i] = true;
                }
                for i in r - (lost - lo)..r {
                    lost_rec[i] = true;
                }
            }
        }
        let mut v = Vec::with_capacity(n);
        for i in 0..k {
            if !lost_orig[i] {
                v.push(Given { rec: false, idx: i });
            }
        }
        for i in 0..r {
            if !lost_rec[i] {
                v.push(Given { rec: true, idx: i });
            }
        }
        debug_assert_eq!(v.len(), n);
        v
    }

    /// The same set in arrival order.
    pub fn arrival(&self, k: usize, r: usize) -> Vec<Given> {
        let mut v = self.given_set(k, r);
        order_apply(&mut v, self.order, self.seed);
        v
    }
}

pub fn order_apply(v: &mut Vec<Given>, order: u8, seed: u64) {
    let mut rng = Xs::new(seed ^ 0x0DE5);
    match order {
        0 => {}
        1 => {
            // recovery first
            v.sort_by_key(|g| (!g.rec, g.idx));
        }
        2 => rng.shuffle(v),
        3 => v.reverse(),
        _ => {
            // interleave originals and recovery
            let (o, r): (Vec<Given>, Vec<Given>) = v.iter().partition(|g| !g.rec);
            let mut out = Vec::with_capacity(v.len());
            let (mut i, mut j) = (0, 0);
            while i < o.len() || j < r.len() {
                if j < r.len() {
                    out.push(r[j]);
                    j += 1;
                }
                if i < o.len() {
                    out.push(o[i]);
                    i += 1;
                }
            }
            *v = out;
        }
    }
}

// ----------------------------------------------------------------------
// a complete encode + decode round

#[derive(Clone, Copy, Debug, PartialEq, Eq, Hash, Serialize, Deserialize)]
pub struct Round {
    pub kind: Kind,
    pub eng: Eng,
    pub cfg: Cfg,
    pub data: DataSpec,
    pub recv: RecvSpec,
}

pub fn round(tier: Tier) -> BoxedStrategy<Round> {
    let max_medium = tier.pick(1200, 3000);
    kind_any()
        .prop_flat_map(move |kind| round_of_kind(kind, max_medium))
        .boxed()
}

/// label of a count pair for the class histogram
pub fn count_class(k: usize, r: usize) -> &'static str {
    let n = k + r;
    if k <= 8 && r <= 8 {
        "tiny"
    } else if n <= 128 {
        "small"
    } else if n <= 700 {
        "mid"
    } else if n <= 2500 {
        "medium"
    } else if n <= 30000 {
        "large"
    } else {
        "huge"
    }
}

/// very few, very long shards: 64 KiB .. 4 MiB, log-uniform, any residue
pub fn long_shard_cfg() -> BoxedStrategy<Cfg> {
    (1usize..=5, 1usize..=5, 64u32..=88, 0usize..4096)
        .prop_map(|(k, r, q, jitter)| {
            let bytes = 2f64.powf(q as f64 / 4.0) as usize; // 2^16 .. 2^22
            Cfg { k, r, b: (bytes + jitter * 2) / 2 * 2 }
        })
        .boxed()
}

pub fn round_of_kind(kind: Kind, max_medium: usize) -> BoxedStrategy<Round> {
    let cfgs = if max_medium >= 1000 {
        prop_oneof![120 => cfg(kind, max_medium).prop_map(|(c, _)| c), 1 => long_shard_cfg()].boxed()
    } else {
        cfg(kind, max_medium).prop_map(|(c, _)| c).boxed()
    };
    (cfgs, engine_for(kind), data_spec(), recv_spec())
        .prop_map(move |(cfg, eng, data, recv)| Round {
            kind,
            eng,
            cfg,
            data,
            recv,
        })
        .boxed()
}

/// chunk shape label of a configuration under a given rate
pub fn chunk_shape(k: usize, r: usize, high: bool) -> &'static str {
    let (m, other) = if high {
        (r.next_power_of_two(), k)
    } else {
        (k.next_power_of_two(), r)
    };
    if other <= m {
        "single"
    } else if other % m == 0 {
        "multi-full"
    } else {
        "multi-partial"
    }
}

/// Monotone map of a raw 16-bit draw onto 0..=len (shrinks towards 0).
pub fn idx_map(raw: u16, len: usize) -> usize {
    ((raw as u128 * (len as u128 + 1)) >> 16) as usize
}
