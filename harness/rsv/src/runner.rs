//! Driver: parallel proptest exploration, shrinking, replay files, evidence.

use proptest::strategy::{BoxedStrategy, Strategy};
use proptest::test_runner::{Config, RngSeed, TestCaseError, TestError, TestRunner};
use serde::de::DeserializeOwned;
use serde::Serialize;
use serde_json::{json, Value};
use std::cell::{Cell, RefCell};
use std::collections::{BTreeMap, HashSet};
use std::fmt::Debug;
use std::hash::{Hash, Hasher};
use std::panic::{catch_unwind, AssertUnwindSafe};
use std::sync::atomic::{AtomicBool, Ordering};
use std::time::Instant;

#[derive(Clone, Copy, Debug, PartialEq, Eq)]
pub enum Tier {
    Quick,
    Thorough,
}

impl Tier {
    pub fn name(self) -> &'static str {
        match self {
            Tier::Quick => "quick",
            Tier::Thorough => "thorough",
        }
    }
    pub fn pick<T>(self, q: T, t: T) -> T {
        match self {
            Tier::Quick => q,
            Tier::Thorough => t,
        }
    }
}

pub fn verif_dir() -> String {
    std::env::var("RSV_VERIF_DIR").unwrap_or_else(|_| "/verif".to_string())
}

// ----------------------------------------------------------------------
// panic capture

thread_local! {
    static LAST_PANIC: RefCell<Option<String>> = const { RefCell::new(None) };
}

pub fn install_panic_hook() {
    let verbose = std::env::var("RSV_VERBOSE").is_ok();
    std::panic::set_hook(Box::new(move |info| {
        let msg = if let Some(s) = info.payload().downcast_ref::<&str>() {
            (*s).to_string()
        } else if let Some(s) = info.payload().downcast_ref::<String>() {
            s.clone()
        } else {
            "<non-string panic>".to_string()
        };
        let loc = info
            .location()
            .map(|l| format!("{}:{}", l.file(), l.line()))
            .unwrap_or_default();
        let full = format!("{msg} @ {loc}");
        if verbose {
            eprintln!("[panic] {full}");
        }
        // (try_with: the hook may run while the thread's locals are being destroyed)
        let _ = LAST_PANIC.try_with(|p| *p.borrow_mut() = Some(full.clone()));
    }));
}

/// Runs `f`, turning an unwind into Err("panic: ...").
pub fn no_panic<T>(f: impl FnOnce() -> T) -> Result<T, String> {
    let _ = LAST_PANIC.try_with(|p| *p.borrow_mut() = None);
    match catch_unwind(AssertUnwindSafe(f)) {
        Ok(v) => Ok(v),
        Err(e) => {
            let m = LAST_PANIC
                .try_with(|p| p.borrow_mut().take())
                .ok()
                .flatten()
                .or_else(|| e.downcast_ref::<String>().cloned())
                .or_else(|| e.downcast_ref::<&str>().map(|s| s.to_string()))
                .unwrap_or_else(|| "<unknown>".into());
            Err(format!("panic: {m}"))
        }
    }
}

/// true if a failure message is a panic raised from the harness' own source files
pub fn is_harness_panic(msg: &str) -> bool {
    if msg.starts_with("harness:") {
        return true;
    }
    if let Some(at) = msg.rfind(" @ ") {
        let loc = &msg[at + 3..];
        msg.contains("panic:") && (loc.starts_with("rsv/src") || loc.starts_with("rsv-neon/src/neon_emu") || loc.contains("/harness/rsv"))
    } else {
        false
    }
}

// ----------------------------------------------------------------------
// Stats

pub fn hash_of<T: Hash + ?Sized>(v: &T) -> u64 {
    let mut h = std::collections::hash_map::DefaultHasher::new();
    v.hash(&mut h);
    h.finish()
}

#[derive(Default)]
pub struct Stats {
    pub evaluations: u64,
    pub nontrivial: HashSet<u64>,
    pub classes: BTreeMap<String, u64>,
    pub samples: Vec<Value>,
    pub known: BTreeMap<String, u64>,
    pub counters: BTreeMap<String, u64>,
    sample_slots: u64,
}

impl Stats {
    pub fn class(&mut self, name: &str) {
        *self.classes.entry(name.to_string()).or_insert(0) += 1;
    }
    pub fn classf(&mut self, group: &str, v: impl std::fmt::Display) {
        *self.classes.entry(format!("{group}={v}")).or_insert(0) += 1;
    }
    pub fn count(&mut self, name: &str, n: u64) {
        *self.counters.entry(name.to_string()).or_insert(0) += n;
    }
    /// mark the current case non-trivial; `key` identifies the case (distinctness)
    pub fn nontrivial_key(&mut self, key: u64) {
        self.nontrivial.insert(key);
    }
    pub fn nontrivial_case<C: Serialize>(&mut self, part: &str, case: &C) {
        let s = serde_json::to_string(case).unwrap_or_default();
        self.nontrivial.insert(hash_of(&(part, s)));
    }
    pub fn want_sample(&self) -> bool {
        // first 3 cases, then cases number 100, 1000, 10000 of this worker
        self.sample_slots < 6
            && (self.evaluations <= 3
                || self.evaluations == 100
                || self.evaluations == 1000
                || self.evaluations == 10000)
    }
    pub fn sample(&mut self, v: Value) {
        self.sample_slots += 1;
        self.samples.push(v);
    }
    pub fn merge(&mut self, o: Stats) {
        self.evaluations += o.evaluations;
        self.nontrivial.extend(o.nontrivial);
        for (k, v) in o.classes {
            *self.classes.entry(k).or_insert(0) += v;
        }
        for (k, v) in o.known {
            *self.known.entry(k).or_insert(0) += v;
        }
        for (k, v) in o.counters {
            *self.counters.entry(k).or_insert(0) += v;
        }
        self.samples.extend(o.samples);
    }
}

// ----------------------------------------------------------------------
// Known findings

#[derive(Default, Clone)]
pub struct KnownFindings {
    /// (property, signature, description)
    pub findings: Vec<(String, String, String)>,
}

impl KnownFindings {
    pub fn load() -> KnownFindings {
        let path = format!("{}/known-findings.txt", verif_dir());
        let mut k = KnownFindings::default();
        if let Ok(text) = std::fs::read_to_string(path) {
            for line in text.lines() {
                let line = line.trim();
                // finding: property=C10 sig=<token> <description...>
                if let Some(rest) = line.strip_prefix("finding:") {
                    let mut prop = String::new();
                    let mut sig = String::new();
                    let mut desc = Vec::new();
                    for tok in rest.split_whitespace() {
                        if let Some(p) = tok.strip_prefix("property=") {
                            prop = p.to_string();
                        } else if let Some(s) = tok.strip_prefix("sig=") {
                            sig = s.to_string();
                        } else {
                            desc.push(tok);
                        }
                    }
                    if !prop.is_empty() && !sig.is_empty() {
                        k.findings.push((prop, sig, desc.join(" ")));
                    }
                }
                // "fixed:" lines suppress nothing
            }
        }
        k
    }
    pub fn matches(&self, prop: &str, sig: &str) -> bool {
        self.findings.iter().any(|(p, s, _)| p == prop && s == sig)
    }
}

/// A check failure. `sig` (optional) is an exact signature used only to match known findings.
#[derive(Debug, Clone)]
pub struct Fail {
    pub sig: Option<String>,
    pub msg: String,
}

impl From<String> for Fail {
    fn from(msg: String) -> Fail {
        Fail { sig: None, msg }
    }
}
impl From<&str> for Fail {
    fn from(msg: &str) -> Fail {
        Fail {
            sig: None,
            msg: msg.to_string(),
        }
    }
}

pub type CheckResult = Result<(), Fail>;

#[macro_export]
macro_rules! fail {
    ($($arg:tt)*) => {
        return Err($crate::runner::Fail { sig: None, msg: format!($($arg)*) })
    };
}

#[macro_export]
macro_rules! ensure {
    ($cond:expr, $($arg:tt)*) => {
        if !($cond) {
            return Err($crate::runner::Fail { sig: None, msg: format!($($arg)*) });
        }
    };
}

// ----------------------------------------------------------------------
// Run

#[derive(Clone, Debug)]
pub struct Failure {
    pub part: String,
    pub case: Value,
    pub message: String,
    pub replay_path: Option<String>,
}

#[derive(Default, Clone, Debug, Serialize)]
pub struct PartSummary {
    pub evaluations: u64,
    pub distinct_nontrivial: u64,
    pub wall_s: f64,
    pub exhaustive: bool,
    pub note: String,
}

pub struct Run {
    pub id: &'static str,
    pub tier: Tier,
    pub seed: u64,
    pub threads: usize,
    pub scale: f64,
    pub stats: Stats,
    pub parts: BTreeMap<String, PartSummary>,
    pub failures: Vec<Failure>,
    pub inconclusive: Vec<String>,
    pub assumptions: Vec<String>,
    pub rule: String,
    pub extra: BTreeMap<String, Value>,
    pub known: KnownFindings,
    pub start: Instant,
    pub write_evidence: bool,
}

impl Run {
    pub fn new(id: &'static str, tier: Tier, seed: u64) -> Run {
        let threads = std::env::var("RSV_THREADS")
            .ok()
            .and_then(|s| s.parse().ok())
            .unwrap_or_else(|| {
                std::thread::available_parallelism()
                    .map(|n| n.get())
                    .unwrap_or(4)
                    .min(16)
            });
        let scale = std::env::var("RSV_SCALE")
            .ok()
            .and_then(|s| s.parse().ok())
            .unwrap_or(1.0);
        Run {
            id,
            tier,
            seed,
            threads,
            scale,
            stats: Stats::default(),
            parts: BTreeMap::new(),
            failures: Vec::new(),
            inconclusive: Vec::new(),
            assumptions: Vec::new(),
            rule: String::new(),
            extra: BTreeMap::new(),
            known: KnownFindings::load(),
            start: Instant::now(),
            write_evidence: true,
        }
    }

    pub fn failed(&self) -> bool {
        !self.failures.is_empty()
    }

    pub fn cases(&self, quick: u64, thorough: u64) -> u64 {
        let n = self.tier.pick(quick, thorough) as f64 * self.scale;
        (n.ceil() as u64).max(1)
    }

    pub fn part_seed(&self, part: &str, worker: usize) -> u64 {
        hash_of(&(self.id, part, self.seed, worker as u64))
    }

    pub fn record_failure(&mut self, part: &str, case: Value, message: String) {
        let body = json!({
            "property": self.id,
            "part": part,
            "case": case,
            "message": message,
            "seed": self.seed,
            "tier": self.tier.name(),
        });
        let text = serde_json::to_string_pretty(&body).unwrap();
        let h = hash_of(&(part, serde_json::to_string(&body["case"]).unwrap()));
        let dir = format!("{}/replays", verif_dir());
        let _ = std::fs::create_dir_all(&dir);
        let path = format!("{dir}/{}-{:016x}.json", self.id, h);
        let replay_path = match std::fs::write(&path, text) {
            Ok(()) => Some(path),
            Err(_) => None,
        };
        self.failures.push(Failure {
            part: part.to_string(),
            case,
            message,
            replay_path,
        });
    }

    /// Generated exploration of one part.
    pub fn explore<C, F>(
        &mut self,
        part: &str,
        cases: u64,
        max_shrink_iters: u32,
        strat: &(dyn Fn() -> BoxedStrategy<C> + Sync),
        check: F,
    ) where
        C: Debug + Clone + Serialize + Send + 'static,
        F: Fn(&C, &mut Stats) -> CheckResult + Sync,
    {
        if self.failed() {
            return;
        }
        let t0 = Instant::now();
        let threads = self.threads.max(1).min(cases.max(1) as usize);
        let per = cases.div_ceil(threads as u64);
        let stop = AtomicBool::new(false);
        let known = self.known.clone();
        let id = self.id;
        let results: Vec<(Stats, Option<(C, String)>)> = std::thread::scope(|scope| {
            let mut handles = Vec::new();
            for w in 0..threads {
                let seed = self.part_seed(part, w);
                let stop = &stop;
                let check = &check;
                let known = &known;
                handles.push(scope.spawn(move || {
                    let stats = RefCell::new(Stats::default());
                    let failed = Cell::new(false);
                    let config = Config {
                        cases: per as u32,
                        failure_persistence: None,
                        rng_seed: RngSeed::Fixed(seed),
                        max_shrink_iters,
                        max_global_rejects: 1_000_000,
                        ..Config::default()
                    };
                    let mut runner = TestRunner::new(config);
                    let strategy = strat();
                    let res = runner.run(&strategy, |case: C| {
                        if !failed.get() && stop.load(Ordering::Relaxed) {
                            return Ok(());
                        }
                        let mut scratch = Stats::default();
                        let counting = !failed.get();
                        let r = {
                            let mut st = stats.borrow_mut();
                            let target: &mut Stats = if counting { &mut st } else { &mut scratch };
                            if counting {
                                target.evaluations += 1;
                                if w == 0 && target.want_sample() {
                                    let v = serde_json::to_value(&case).unwrap_or(Value::Null);
                                    target.sample(v);
                                }
                            }
                            match no_panic(|| check(&case, target)) {
                                Ok(r) => r,
                                Err(p) => Err(Fail { sig: None, msg: p }),
                            }
                        };
                        match r {
                            Ok(()) => Ok(()),
                            Err(f) => {
                                if let Some(sig) = &f.sig {
                                    if known.matches(id, sig) {
                                        if counting {
                                            *stats.borrow_mut().known.entry(sig.clone()).or_insert(0) += 1;
                                        }
                                        return Ok(());
                                    }
                                }
                                failed.set(true);
                                stop.store(true, Ordering::Relaxed);
                                Err(TestCaseError::fail(f.msg))
                            }
                        }
                    });
                    let failure = match res {
                        Ok(()) => None,
                        Err(TestError::Fail(reason, value)) => Some((value, reason.message().to_string())),
                        Err(TestError::Abort(reason)) => {
                            // generator problem: not a violation
                            stats.borrow_mut().count("aborted_workers", 1);
                            eprintln!("[{id}/{part}] worker aborted: {reason}");
                            None
                        }
                    };
                    (stats.into_inner(), failure)
                }));
            }
            handles.into_iter().map(|h| h.join().expect("worker thread")).collect()
        });

        let mut part_stats = Stats::default();
        let mut first_failure = None;
        for (st, f) in results {
            part_stats.merge(st);
            if first_failure.is_none() {
                first_failure = f;
            }
        }
        for (k, v) in &part_stats.counters {
            if k.starts_with("inconclusive_") && *v > 0 {
                self.inconclusive.push(format!("{part}: {k} = {v}"));
            }
        }
        let aborted = part_stats.counters.get("aborted_workers").copied().unwrap_or(0);
        if aborted > 0 {
            self.inconclusive
                .push(format!("{part}: {aborted} worker(s) aborted in the generator"));
        }
        let summary = PartSummary {
            evaluations: part_stats.evaluations,
            distinct_nontrivial: part_stats.nontrivial.len() as u64,
            wall_s: t0.elapsed().as_secs_f64(),
            exhaustive: false,
            note: String::new(),
        };
        // namespace classes by part
        let mut renamed = Stats::default();
        renamed.evaluations = part_stats.evaluations;
        renamed.nontrivial = part_stats.nontrivial.iter().map(|h| hash_of(&(part, *h))).collect();
        for (k, v) in part_stats.classes {
            renamed.classes.insert(format!("{part}/{k}"), v);
        }
        for (k, v) in part_stats.counters {
            renamed.counters.insert(format!("{part}/{k}"), v);
        }
        renamed.known = part_stats.known;
        renamed.samples = part_stats
            .samples
            .into_iter()
            .map(|s| json!({"part": part, "case": s}))
            .collect();
        self.stats.merge(renamed);
        self.parts.insert(part.to_string(), summary);

        if let Some((case, msg)) = first_failure {
            let v = serde_json::to_value(&case).unwrap_or(Value::Null);
            if is_harness_panic(&msg) {
                // a bug in the checking code is never reported as a violation of the property
                self.record_failure(part, v, msg.clone());
                let f = self.failures.pop().unwrap();
                self.inconclusive.push(format!(
                    "{part}: the harness itself panicked ({msg}); case saved at {}",
                    f.replay_path.unwrap_or_default()
                ));
            } else {
                self.record_failure(part, v, msg);
            }
        }
    }

    /// Record the result of a hand-rolled (e.g. exhaustive) part.
    pub fn record_part(&mut self, part: &str, stats: Stats, exhaustive: bool, note: &str, t0: Instant) {
        let summary = PartSummary {
            evaluations: stats.evaluations,
            distinct_nontrivial: stats.nontrivial.len() as u64,
            wall_s: t0.elapsed().as_secs_f64(),
            exhaustive,
            note: note.to_string(),
        };
        let mut renamed = Stats::default();
        renamed.evaluations = stats.evaluations;
        renamed.nontrivial = stats.nontrivial.iter().map(|h| hash_of(&(part, *h))).collect();
        for (k, v) in stats.classes {
            renamed.classes.insert(format!("{part}/{k}"), v);
        }
        for (k, v) in stats.counters {
            renamed.counters.insert(format!("{part}/{k}"), v);
        }
        renamed.known = stats.known;
        renamed.samples = stats
            .samples
            .into_iter()
            .map(|s| json!({"part": part, "case": s}))
            .collect();
        self.stats.merge(renamed);
        self.parts.insert(part.to_string(), summary);
    }

    /// Writes evidence, prints verdict lines, returns the process exit code.
    pub fn finish(mut self) -> i32 {
        let wall = self.start.elapsed().as_secs_f64();
        // known findings: one line per listed finding of this property that was hit
        for (p, sig, desc) in &self.known.findings {
            if p == self.id {
                let n = self.stats.known.get(sig).copied().unwrap_or(0);
                if n > 0 {
                    println!("KNOWN-FINDING: property={} sig={} {} (hit {} times, excluded)", self.id, sig, desc, n);
                }
            }
        }
        let exhaustive_all = !self.parts.is_empty() && self.parts.values().all(|p| p.exhaustive);
        let exhaustive_parts: Vec<&String> = self
            .parts
            .iter()
            .filter(|(_, p)| p.exhaustive)
            .map(|(k, _)| k)
            .collect();
        let mut samples = std::mem::take(&mut self.stats.samples);
        samples.truncate(24);
        let mut coverage = json!({
            "evaluations": self.stats.evaluations,
            "distinct_nontrivial": self.stats.nontrivial.len(),
            "rule": self.rule,
            "samples": samples,
            "classes": self.stats.classes,
            "counters": self.stats.counters,
            "parts": self.parts,
            "exhaustive": exhaustive_all,
            "exhaustive_parts": exhaustive_parts,
            "known_findings_hit": self.stats.known,
            "inconclusive": self.inconclusive,
            "threads": self.threads,
        });
        for (k, v) in &self.extra {
            coverage[k] = v.clone();
        }
        let ev = json!({
            "property_id": self.id,
            "tier": self.tier.name(),
            "seed": self.seed,
            "level": "exploration",
            "coverage": coverage,
            "assumptions": self.assumptions,
            "wall_s": wall,
            "violations": self.failures.len(),
        });
        if self.write_evidence && std::env::var("RSV_CHILD").is_err() {
            let dir = format!("{}/evidence", verif_dir());
            let _ = std::fs::create_dir_all(&dir);
            let path = format!("{dir}/{}.json", self.id);
            if let Err(e) = std::fs::write(&path, serde_json::to_string_pretty(&ev).unwrap()) {
                eprintln!("cannot write evidence {path}: {e}");
                return 2;
            }
        }
        for f in &self.failures {
            let path = f.replay_path.clone().unwrap_or_else(|| "<unwritable>".into());
            println!("VIOLATION property={} replay={}", self.id, path);
            println!("  part={} message={}", f.part, f.message);
            let c = serde_json::to_string(&f.case).unwrap_or_default();
            let c = if c.len() > 600 { format!("{}...", &c[..600]) } else { c };
            println!("  case={c}");
        }
        println!(
            "[{}] tier={} seed={} evaluations={} distinct_nontrivial={} violations={} wall={:.1}s",
            self.id,
            self.tier.name(),
            self.seed,
            self.stats.evaluations,
            self.stats.nontrivial.len(),
            self.failures.len(),
            wall
        );
        if !self.failures.is_empty() {
            1
        } else if !self.inconclusive.is_empty() {
            for m in &self.inconclusive {
                println!("INCONCLUSIVE property={} {}", self.id, m);
            }
            2
        } else {
            0
        }
    }
}

// ----------------------------------------------------------------------
// Parts with type-erased case types (generated parts share this shape)

pub trait PartDyn: Sync {
    fn name(&self) -> &'static str;
    fn run(&self, run: &mut Run);
    /// Re-executes one saved case; Err(message) if it still fails.
    fn replay(&self, case: &Value) -> Result<(), String>;
}

pub struct GenPart<C: 'static> {
    pub name: &'static str,
    pub quick: u64,
    pub thorough: u64,
    pub shrink_iters: u32,
    pub strat: fn(Tier) -> BoxedStrategy<C>,
    pub check: fn(&C, &mut Stats) -> CheckResult,
}

impl<C> PartDyn for GenPart<C>
where
    C: Debug + Clone + Serialize + DeserializeOwned + Send + Sync + 'static,
{
    fn name(&self) -> &'static str {
        self.name
    }
    fn run(&self, run: &mut Run) {
        let cases = run.cases(self.quick, self.thorough);
        let tier = run.tier;
        let strat = self.strat;
        let check = self.check;
        run.explore(self.name, cases, self.shrink_iters, &move || strat(tier), move |c, st| check(c, st));
    }
    fn replay(&self, case: &Value) -> Result<(), String> {
        let c: C = serde_json::from_value(case.clone()).map_err(|e| format!("cannot parse case: {e}"))?;
        let mut st = Stats::default();
        match no_panic(|| (self.check)(&c, &mut st)) {
            Ok(Ok(())) => Ok(()),
            Ok(Err(f)) => Err(f.msg),
            Err(p) => Err(p),
        }
    }
}

/// global budget so that parallel workers do not hold tens of GiB at once
pub fn with_memory_budget<T>(bytes: usize, f: impl FnOnce() -> T) -> T {
    use std::sync::{Condvar, Mutex};
    static BUDGET: Mutex<usize> = Mutex::new(28 << 30);
    static CV: Condvar = Condvar::new();
    let want = bytes.min(28 << 30);
    {
        let mut g = BUDGET.lock().unwrap();
        while *g < want {
            g = CV.wait(g).unwrap();
        }
        *g -= want;
    }
    struct Give(usize);
    impl Drop for Give {
        fn drop(&mut self) {
            *BUDGET.lock().unwrap() += self.0;
            CV.notify_all();
        }
    }
    let _give = Give(want);
    f()
}

/// Runs `f` on a helper thread; None if it has not finished after `secs` seconds (the helper thread is
/// then abandoned - used only around calls that would self-deadlock in a faulty implementation).
pub fn with_deadline<T: Send + 'static>(secs: u64, f: impl FnOnce() -> T + Send + 'static) -> Option<T> {
    let (tx, rx) = std::sync::mpsc::channel();
    std::thread::spawn(move || {
        let _ = tx.send(f());
    });
    rx.recv_timeout(std::time::Duration::from_secs(secs)).ok()
}

/// helper to box a strategy
pub fn boxed<S: Strategy + 'static>(s: S) -> BoxedStrategy<S::Value> {
    s.boxed()
}
