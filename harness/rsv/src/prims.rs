//! Running engine primitives on plain buffers.

use crate::engines::{Eng, Mk};
use crate::with_engine;
use reed_solomon_simd::engine::{Engine, ShardsRefMut};

#[derive(Clone, Copy, Debug, PartialEq, Eq, Hash, serde::Serialize, serde::Deserialize)]
pub enum Xform {
    Fft,
    Ifft,
}

/// Buffer of `n` shards of `blocks` 64-byte blocks plus `extra` trailing blocks outside the ShardsRefMut.
#[derive(Clone, PartialEq, Eq)]
pub struct Buf {
    pub n: usize,
    pub blocks: usize,
    pub data: Vec<[u8; 64]>,
}

impl Buf {
    pub fn zeroed(n: usize, blocks: usize, extra: usize) -> Buf {
        Buf { n, blocks, data: vec![[0u8; 64]; n * blocks + extra] }
    }
    pub fn shard(&self, i: usize) -> &[[u8; 64]] {
        &self.data[i * self.blocks..(i + 1) * self.blocks]
    }
    pub fn shard_mut(&mut self, i: usize) -> &mut [[u8; 64]] {
        &mut self.data[i * self.blocks..(i + 1) * self.blocks]
    }
    /// symbol `slot` (0..32*blocks) of shard i
    pub fn sym(&self, i: usize, slot: usize) -> u16 {
        let blk = &self.shard(i)[slot / 32];
        blk[slot % 32] as u16 | (blk[slot % 32 + 32] as u16) << 8
    }
    pub fn set_sym(&mut self, i: usize, slot: usize, v: u16) {
        let blk = &mut self.shard_mut(i)[slot / 32];
        blk[slot % 32] = v as u8;
        blk[slot % 32 + 32] = (v >> 8) as u8;
    }
}

/// Runs `f` on a copy of `blocks` that starts `off` bytes (0..64) past a 64-byte aligned address, then
/// copies the result back. `[u8; 64]` has alignment 1, so the public primitives must work at any address.
pub fn at_offset<T>(blocks: &mut [[u8; 64]], off: usize, f: impl FnOnce(&mut [[u8; 64]]) -> T) -> T {
    if off == 0 {
        return f(blocks);
    }
    let n = blocks.len();
    let mut raw = vec![0u8; n * 64 + 128];
    let base = raw.as_ptr() as usize;
    let start = (64 - base % 64) % 64 + off % 64;
    raw[start..start + n * 64].copy_from_slice(blocks.as_flattened());
    // SAFETY: the range start..start + n*64 lies inside `raw`, [u8; 64] has alignment 1 and any bit pattern is valid
    let view: &mut [[u8; 64]] = unsafe { std::slice::from_raw_parts_mut(raw.as_mut_ptr().add(start) as *mut [u8; 64], n) };
    let out = f(view);
    blocks.as_flattened_mut().copy_from_slice(&raw[start..start + n * 64]);
    out
}

pub fn xform_at(eng: Eng, which: Xform, buf: &mut Buf, off: usize, pos: usize, size: usize, trunc: usize, skew_delta: usize) {
    let (n, blocks) = (buf.n, buf.blocks);
    at_offset(&mut buf.data, off, |data| {
        with_engine!(eng, E, {
            let e = <E as Mk>::mk();
            let mut s = ShardsRefMut::new(n, blocks, data);
            match which {
                Xform::Fft => e.fft(&mut s, pos, size, trunc, skew_delta),
                Xform::Ifft => e.ifft(&mut s, pos, size, trunc, skew_delta),
            }
        })
    })
}

pub fn mul_at(eng: Eng, x: &mut [[u8; 64]], off: usize, log_m: u16) {
    at_offset(x, off, |data| mul(eng, data, log_m))
}

pub fn xform(eng: Eng, which: Xform, buf: &mut Buf, pos: usize, size: usize, trunc: usize, skew_delta: usize) {
    let (n, blocks) = (buf.n, buf.blocks);
    with_engine!(eng, E, {
        let e = <E as Mk>::mk();
        let mut s = ShardsRefMut::new(n, blocks, &mut buf.data);
        match which {
            Xform::Fft => e.fft(&mut s, pos, size, trunc, skew_delta),
            Xform::Ifft => e.ifft(&mut s, pos, size, trunc, skew_delta),
        }
    })
}

pub fn mul(eng: Eng, x: &mut [[u8; 64]], log_m: u16) {
    with_engine!(eng, E, {
        let e = <E as Mk>::mk();
        e.mul(x, log_m);
    })
}

pub fn eval_poly(eng: Eng, erasures: &mut [u16; 65536], trunc: usize) {
    with_engine!(eng, E, {
        <E as Engine>::eval_poly(erasures, trunc);
    })
}
