//! Running engine primitives on plain buffers.

use crate::engines::{Eng, Mk};
use crate::with_engine;
use reed_solomon_simd::engine::{Engine, ShardsRefMut};

#[derive(Clone, Copy, Debug, PartialEq, Eq, Hash, serde::Serialize, serde::Deserialize)]
pub enum Xform {
    Fft,
    Ifft,
}

/// Fills blocks with seeded content of one of several VALUE STRUCTURES (chosen by the seed): uniformly random
/// bytes (half of the seeds), bytes restricted by a mask (7-bit, nibbles, single bits), a tiny alphabet,
/// whole blocks zero, or the 32 low / 32 high bytes of every block zero (symbols >= 256 never / always).
/// Data-dependent shortcuts in kernels (zero tests, skips) only show on structured content.
pub fn fill_structured(blocks: &mut [[u8; 64]], seed: u64) -> &'static str {
    let mut rng = crate::gen::Xs::new(seed ^ 0xF111);
    for blk in blocks.iter_mut() {
        rng.fill(blk);
    }
    match (seed >> 40) % 10 {
        0..=4 => "random",
        5 | 6 => {
            const MASKS: [u8; 10] = [0x7F, 0x7F, 0x0F, 0xF0, 0x01, 0x80, 0x55, 0xFE, 0x3F, 0x03];
            let m = MASKS[(seed >> 48) as usize % MASKS.len()];
            for blk in blocks.iter_mut() {
                for x in blk.iter_mut() {
                    *x &= m;
                }
            }
            "masked bytes"
        }
        7 => {
            let n = 1 + (seed >> 48) as usize % 3;
            let alpha: Vec<u8> = (0..n).map(|_| rng.next() as u8).collect();
            for blk in blocks.iter_mut() {
                for x in blk.iter_mut() {
                    *x = alpha[rng.below(n)];
                }
            }
            "tiny alphabet"
        }
        8 => {
            for blk in blocks.iter_mut() {
                if rng.below(2) == 0 {
                    *blk = [0u8; 64];
                }
            }
            "zero blocks"
        }
        9 if (seed >> 52) % 2 == 0 => {
            // 16-byte quarters of the block (the lanes of the 128-bit kernels: low / high bytes of slots 0..16 and 16..32)
            // zeroed by one mask for the whole buffer ("columns") or by a mask per block
            let col = 1 + (seed >> 53) as usize % 14;
            let per_block = (seed >> 57) % 2 == 0;
            for blk in blocks.iter_mut() {
                let m = if per_block { 1 + rng.below(14) } else { col };
                for q in 0..4 {
                    if m >> q & 1 == 1 {
                        blk[16 * q..16 * q + 16].fill(0);
                    }
                }
            }
            "quarter blocks zero"
        }
        _ => {
            let which = (seed >> 48) % 3;
            for (i, blk) in blocks.iter_mut().enumerate() {
                let low_only = match which {
                    0 => true,
                    1 => false,
                    _ => i % 2 == 0,
                };
                if low_only {
                    blk[32..].fill(0);
                } else {
                    blk[..32].fill(0);
                }
            }
            "half blocks zero"
        }
    }
}

/// Buffer of `n` shards of `blocks` 64-byte blocks plus `extra` trailing blocks outside the ShardsRefMut.
#[derive(Clone, PartialEq, Eq)]
pub struct Buf {
    pub n: usize,
    pub blocks: usize,
    pub data: Vec<[u8; 64]>,
}

impl Buf {
    pub fn zeroed(n: usize, blocks: usize, extra: usize) -> Buf {
        Buf { n, blocks, data: vec![[0u8; 64]; n * blocks + extra] }
    }
    pub fn shard(&self, i: usize) -> &[[u8; 64]] {
        &self.data[i * self.blocks..(i + 1) * self.blocks]
    }
    pub fn shard_mut(&mut self, i: usize) -> &mut [[u8; 64]] {
        &mut self.data[i * self.blocks..(i + 1) * self.blocks]
    }
    /// symbol `slot` (0..32*blocks) of shard i
    pub fn sym(&self, i: usize, slot: usize) -> u16 {
        let blk = &self.shard(i)[slot / 32];
        blk[slot % 32] as u16 | (blk[slot % 32 + 32] as u16) << 8
    }
    pub fn set_sym(&mut self, i: usize, slot: usize, v: u16) {
        let blk = &mut self.shard_mut(i)[slot / 32];
        blk[slot % 32] = v as u8;
        blk[slot % 32 + 32] = (v >> 8) as u8;
    }
}

/// Runs `f` on a copy of `blocks` that starts `off` bytes (0..64) past a 64-byte aligned address, then
/// copies the result back. `[u8; 64]` has alignment 1, so the public primitives must work at any address.
pub fn at_offset<T>(blocks: &mut [[u8; 64]], off: usize, f: impl FnOnce(&mut [[u8; 64]]) -> T) -> T {
    if off == 0 {
        return f(blocks);
    }
    let n = blocks.len();
    let mut raw = vec![0u8; n * 64 + 128];
    let base = raw.as_ptr() as usize;
    let start = (64 - base % 64) % 64 + off % 64;
    raw[start..start + n * 64].copy_from_slice(blocks.as_flattened());
    // SAFETY: the range start..start + n*64 lies inside `raw`, [u8; 64] has alignment 1 and any bit pattern is valid
    let view: &mut [[u8; 64]] = unsafe { std::slice::from_raw_parts_mut(raw.as_mut_ptr().add(start) as *mut [u8; 64], n) };
    let out = f(view);
    blocks.as_flattened_mut().copy_from_slice(&raw[start..start + n * 64]);
    out
}

pub fn xform_at(eng: Eng, which: Xform, buf: &mut Buf, off: usize, pos: usize, size: usize, trunc: usize, skew_delta: usize) {
    let (n, blocks) = (buf.n, buf.blocks);
    at_offset(&mut buf.data, off, |data| {
        with_engine!(eng, E, {
            let e = <E as Mk>::mk();
            let mut s = ShardsRefMut::new(n, blocks, data);
            match which {
                Xform::Fft => e.fft(&mut s, pos, size, trunc, skew_delta),
                Xform::Ifft => e.ifft(&mut s, pos, size, trunc, skew_delta),
            }
        })
    })
}

pub fn mul_at(eng: Eng, x: &mut [[u8; 64]], off: usize, log_m: u16) {
    at_offset(x, off, |data| mul(eng, data, log_m))
}

pub fn xform(eng: Eng, which: Xform, buf: &mut Buf, pos: usize, size: usize, trunc: usize, skew_delta: usize) {
    let (n, blocks) = (buf.n, buf.blocks);
    with_engine!(eng, E, {
        let e = <E as Mk>::mk();
        let mut s = ShardsRefMut::new(n, blocks, &mut buf.data);
        match which {
            Xform::Fft => e.fft(&mut s, pos, size, trunc, skew_delta),
            Xform::Ifft => e.ifft(&mut s, pos, size, trunc, skew_delta),
        }
    })
}

pub fn mul(eng: Eng, x: &mut [[u8; 64]], log_m: u16) {
    with_engine!(eng, E, {
        let e = <E as Mk>::mk();
        e.mul(x, log_m);
    })
}

pub fn eval_poly(eng: Eng, erasures: &mut [u16; 65536], trunc: usize) {
    with_engine!(eng, E, {
        <E as Engine>::eval_poly(erasures, trunc);
    })
}
