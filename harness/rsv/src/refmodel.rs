//! Independent reference model (DESIGN.md 2.5).
//!
//! Built from the two published constants only (field polynomial 0x1002D and the 16
//! Cantor-basis values). Nothing in this module calls into the crate under test.
//!
//! Conventions: a *symbol* is the 16-bit value stored in a shard slot; bit i of a symbol is
//! the coordinate of Cantor-basis element i. A *std element* is the polynomial-basis value
//! (bit i = x^i) modulo 0x1002D. Points of evaluation are symbols read as integers.

use std::sync::OnceLock;

pub const POLY: u32 = 0x1002D;
pub const CANTOR: [u16; 16] = [
    0x0001, 0xACCA, 0x3C0E, 0x163E, 0xC582, 0xED2E, 0x914C, 0x4012, 0x6C98, 0x10D8, 0x6A72, 0xB900,
    0xFDB8, 0xFB34, 0xFF38, 0x991E,
];
pub const ORDER: usize = 65536;
pub const MODULUS: u32 = 65535;

/// Carry-less multiplication of two std elements modulo POLY (bit by bit; the definition).
pub fn clmul_std(a: u16, b: u16) -> u16 {
    let mut acc: u32 = 0;
    let mut a = a as u32;
    let mut b = b as u32;
    while b != 0 {
        if b & 1 != 0 {
            acc ^= a;
        }
        b >>= 1;
        a <<= 1;
        if a & 0x10000 != 0 {
            a ^= POLY;
        }
    }
    acc as u16
}

/// symbol -> std element
pub fn sym_to_std(s: u16) -> u16 {
    let mut e = 0u16;
    for i in 0..16 {
        if s >> i & 1 != 0 {
            e ^= CANTOR[i];
        }
    }
    e
}

pub struct Field {
    /// exp[d] = symbol whose element is g^d (g = std element `x` = 2); d in 0..65535; exp[65535] = exp[0]
    pub exp: Vec<u16>,
    /// log[s] = discrete log of symbol s (s != 0), in 0..65535; log[0] = u32::MAX sentinel (undefined)
    pub log: Vec<u32>,
    /// std element of each symbol
    pub to_std: Vec<u16>,
    /// symbol of each std element
    pub from_std: Vec<u16>,
    /// s_t(2^t) for t in 0..16 (normalisation constants; all 1 for a Cantor basis)
    pub s_at_basis: [u16; 16],
}

static FIELD: OnceLock<Field> = OnceLock::new();

pub fn field() -> &'static Field {
    FIELD.get_or_init(Field::build)
}

impl Field {
    fn build() -> Field {
        // std-element powers of g = x
        let mut std_pow = vec![0u16; ORDER];
        let mut std_log = vec![u32::MAX; ORDER];
        let mut e: u16 = 1;
        for d in 0..MODULUS {
            std_pow[d as usize] = e;
            assert_eq!(std_log[e as usize], u32::MAX, "generator order too small");
            std_log[e as usize] = d;
            e = clmul_std(e, 2);
        }
        assert_eq!(e, 1, "x must have order 65535");

        let mut to_std = vec![0u16; ORDER];
        let mut from_std = vec![0u16; ORDER];
        let mut seen = vec![false; ORDER];
        for s in 0..ORDER {
            let e = sym_to_std(s as u16);
            assert!(!seen[e as usize], "Cantor basis is not a basis");
            seen[e as usize] = true;
            to_std[s] = e;
            from_std[e as usize] = s as u16;
        }

        let mut exp = vec![0u16; ORDER];
        let mut log = vec![u32::MAX; ORDER];
        for d in 0..MODULUS as usize {
            exp[d] = from_std[std_pow[d] as usize];
        }
        exp[MODULUS as usize] = exp[0];
        for s in 1..ORDER {
            log[s] = std_log[to_std[s] as usize];
        }

        let mut f = Field {
            exp,
            log,
            to_std,
            from_std,
            s_at_basis: [0; 16],
        };
        // s_t(2^t)
        for t in 0..16 {
            f.s_at_basis[t] = f.s_raw(t, 1u16 << t);
        }
        f
    }

    /// product of two symbols
    #[inline]
    pub fn mul(&self, a: u16, b: u16) -> u16 {
        if a == 0 || b == 0 {
            0
        } else {
            self.exp[((self.log[a as usize] + self.log[b as usize]) % MODULUS) as usize]
        }
    }

    /// symbol * g^d
    #[inline]
    pub fn mul_exp(&self, a: u16, d: u32) -> u16 {
        if a == 0 {
            0
        } else {
            self.exp[((self.log[a as usize] + d % MODULUS) % MODULUS) as usize]
        }
    }

    pub fn inv(&self, a: u16) -> u16 {
        assert!(a != 0);
        self.exp[((MODULUS - self.log[a as usize]) % MODULUS) as usize]
    }

    pub fn div(&self, a: u16, b: u16) -> u16 {
        self.mul(a, self.inv(b))
    }

    /// product of two symbols by the definition (conversion + carry-less multiply), slow
    pub fn mul_slow(&self, a: u16, b: u16) -> u16 {
        self.from_std[clmul_std(self.to_std[a as usize], self.to_std[b as usize]) as usize]
    }

    /// un-normalised vanishing polynomial of points 0..2^t evaluated at point x
    /// s_0(x) = x ; s_{t+1}(x) = s_t(x) * (s_t(x) + s_t(2^t))
    fn s_raw(&self, t: usize, x: u16) -> u16 {
        let mut v = x;
        for u in 0..t {
            // s_u(2^u) computed recursively with the same rule
            let c = if u < 16 && self.s_at_basis[u] != 0 {
                self.s_at_basis[u]
            } else {
                self.s_raw(u, 1u16 << u)
            };
            v = self.mul(v, v ^ c);
        }
        v
    }

    /// s_t(x): vanishing polynomial of the points 0..2^t-1 (monic), at point x
    pub fn s(&self, t: usize, x: u16) -> u16 {
        self.s_raw(t, x)
    }

    /// normalised: s_t(x) / s_t(2^t)
    pub fn s_hat(&self, t: usize, x: u16) -> u16 {
        self.div(self.s_raw(t, x), self.s_at_basis[t])
    }

    /// brute-force vanishing polynomial: prod_{v < 2^t} (x + v)
    pub fn s_brute(&self, t: usize, x: u16) -> u16 {
        let mut p = 1u16;
        for v in 0..(1u32 << t) {
            p = self.mul(p, x ^ v as u16);
        }
        p
    }

    /// W_m = product of the points 1..m-1
    pub fn w(&self, m: usize) -> u16 {
        let mut d: u64 = 0;
        for v in 1..m {
            d += self.log[v] as u64;
        }
        self.exp[(d % MODULUS as u64) as usize]
    }

    /// LCH basis polynomial X_i at point x: prod over bits t of i of s_hat_t(x)
    pub fn lch_basis(&self, i: usize, x: u16) -> u16 {
        let mut p = 1u16;
        for t in 0..16 {
            if i >> t & 1 != 0 {
                p = self.mul(p, self.s_hat(t, x));
            }
        }
        p
    }

    /// value at point x of sum_i coeff[i] * X_i
    pub fn lch_eval(&self, coeff: &[u16], x: u16) -> u16 {
        // precompute s_hat_t(x)
        let mut sh = [0u16; 16];
        for t in 0..16 {
            sh[t] = self.s_hat(t, x);
        }
        let mut acc = 0u16;
        for (i, &c) in coeff.iter().enumerate() {
            if c == 0 {
                continue;
            }
            let mut p = c;
            for t in 0..16 {
                if i >> t & 1 != 0 {
                    p = self.mul(p, sh[t]);
                    if p == 0 {
                        break;
                    }
                }
            }
            acc ^= p;
        }
        acc
    }
}

pub fn npo2(x: usize) -> usize {
    x.next_power_of_two()
}

// ----------------------------------------------------------------------
// Envelope and rate rule (C08 / C09), exactly as worded.

pub fn env_default(o: u128, r: u128) -> bool {
    if o < 1 || r < 1 {
        return false;
    }
    for n in 0..=16u32 {
        let p = 1u128 << n;
        if (o <= p && r <= 65536 - p) || (r <= p && o <= 65536 - p) {
            return true;
        }
    }
    false
}

/// high rate: recovery_count is the power-of-two-bounded side
pub fn env_high(o: u128, r: u128) -> bool {
    if o < 1 || r < 1 {
        return false;
    }
    (0..=16u32).any(|n| {
        let p = 1u128 << n;
        r <= p && o <= 65536 - p
    })
}

/// low rate: original_count is the power-of-two-bounded side
pub fn env_low(o: u128, r: u128) -> bool {
    if o < 1 || r < 1 {
        return false;
    }
    (0..=16u32).any(|n| {
        let p = 1u128 << n;
        o <= p && r <= 65536 - p
    })
}

/// C09 selection rule: true = high rate
pub fn rule_high(k: usize, r: usize) -> bool {
    let pk = npo2(k);
    let pr = npo2(r);
    pk > pr || (pk == pr && k <= r)
}

// ----------------------------------------------------------------------
// Slot <-> byte placement (C04)

/// number of 16-bit slots in a shard of `b` bytes
pub fn slots(b: usize) -> usize {
    b / 2
}

/// (low byte offset, high byte offset) of slot `s` in a shard of `b` bytes
pub fn slot_pos(b: usize, s: usize) -> (usize, usize) {
    debug_assert!(s < b / 2);
    let full = b / 64;
    let blk = s / 32;
    let within = s % 32;
    if blk < full {
        (blk * 64 + within, blk * 64 + 32 + within)
    } else {
        let t = b % 64;
        (full * 64 + within, full * 64 + t / 2 + within)
    }
}

pub fn slot_get(shard: &[u8], s: usize) -> u16 {
    let (lo, hi) = slot_pos(shard.len(), s);
    shard[lo] as u16 | (shard[hi] as u16) << 8
}

pub fn slot_set(shard: &mut [u8], s: usize, v: u16) {
    let (lo, hi) = slot_pos(shard.len(), s);
    shard[lo] = v as u8;
    shard[hi] = (v >> 8) as u8;
}

// ----------------------------------------------------------------------
// Generator matrix (C02)

/// Log-domain generator matrix: entry [j][i] = log G[j][i] (G is never 0 inside the envelope
/// because all its factors are non-zero there).
pub struct GenMatrix {
    pub k: usize,
    pub r: usize,
    pub high: bool,
    pub logs: Vec<u32>, // r * k
}

impl GenMatrix {
    pub fn new(k: usize, r: usize, high: bool) -> GenMatrix {
        let f = field();
        let mut logs = vec![0u32; k * r];
        if high {
            let m = npo2(r);
            let t = m.trailing_zeros() as usize;
            let lw = f.log[f.w(m) as usize];
            for i in 0..k {
                let p = (m + i) as u16;
                assert!(m + i < ORDER);
                let num = f.s(t, p);
                assert!(num != 0);
                let ln = f.log[num as usize];
                for j in 0..r {
                    let d = (j as u16) ^ p;
                    assert!(d != 0);
                    let ld = f.log[d as usize];
                    logs[j * k + i] = (ln + 2 * MODULUS - lw - ld) % MODULUS;
                }
            }
        } else {
            let m = npo2(k);
            let t = m.trailing_zeros() as usize;
            let lw = f.log[f.w(m) as usize];
            for j in 0..r {
                assert!(m + j < ORDER);
                let p = (m + j) as u16;
                let num = f.s(t, p);
                assert!(num != 0);
                let ln = f.log[num as usize];
                for i in 0..k {
                    let d = p ^ (i as u16);
                    assert!(d != 0);
                    let ld = f.log[d as usize];
                    logs[j * k + i] = (ln + 2 * MODULUS - lw - ld) % MODULUS;
                }
            }
        }
        GenMatrix { k, r, high, logs }
    }

    /// recovery symbol j for one slot
    pub fn recovery_symbol(&self, j: usize, data_syms: &[u16]) -> u16 {
        let f = field();
        let row = &self.logs[j * self.k..(j + 1) * self.k];
        let mut acc = 0u16;
        for (i, &d) in data_syms.iter().enumerate() {
            if d != 0 {
                acc ^= f.exp[((f.log[d as usize] + row[i]) % MODULUS) as usize];
            }
        }
        acc
    }
}

/// Reference encode of selected slots: returns for each recovery shard j the symbols of `slots_sel`.
pub fn ref_encode_slots(
    gm: &GenMatrix,
    data: &[Vec<u8>],
    slots_sel: &[usize],
) -> Vec<Vec<u16>> {
    let mut out = vec![vec![0u16; slots_sel.len()]; gm.r];
    let mut syms = vec![0u16; gm.k];
    for (si, &s) in slots_sel.iter().enumerate() {
        for i in 0..gm.k {
            syms[i] = slot_get(&data[i], s);
        }
        for j in 0..gm.r {
            out[j][si] = gm.recovery_symbol(j, &syms);
        }
    }
    out
}

/// Full reference encode (all slots) -> recovery shards as bytes.
pub fn ref_encode(k: usize, r: usize, high: bool, data: &[Vec<u8>]) -> Vec<Vec<u8>> {
    let gm = GenMatrix::new(k, r, high);
    let b = data[0].len();
    let all: Vec<usize> = (0..slots(b)).collect();
    let syms = ref_encode_slots(&gm, data, &all);
    syms.iter()
        .map(|row| {
            let mut sh = vec![0u8; b];
            for (s, &v) in row.iter().enumerate() {
                slot_set(&mut sh, s, v);
            }
            sh
        })
        .collect()
}

// ----------------------------------------------------------------------
// eval_poly reference (C15): out[x] = sum_{j marked, j != x} log(x ^ j)  (mod 65535)

pub fn ref_eval_poly_at(marks: &[u32], x: u32) -> u32 {
    let f = field();
    let mut acc: u64 = 0;
    for &j in marks {
        if j != x {
            acc += f.log[(x ^ j) as usize] as u64;
        }
    }
    (acc % MODULUS as u64) as u32
}

/// a == b modulo 65535 where both 0 and 65535 mean zero
pub fn eq_mod(a: u32, b: u32) -> bool {
    a % MODULUS == b % MODULUS
}

// ----------------------------------------------------------------------
// Self test of the model (run at start-up of every check; cheap)

pub fn selftest() -> Result<(), String> {
    let f = field();
    // exp/log vs the definition on pseudo-random pairs
    let mut x: u64 = 0x9E3779B97F4A7C15;
    for _ in 0..20000 {
        x ^= x << 13;
        x ^= x >> 7;
        x ^= x << 17;
        let a = x as u16;
        let b = (x >> 16) as u16;
        if f.mul(a, b) != f.mul_slow(a, b) {
            return Err(format!("refmodel: mul({a},{b}) disagrees with carry-less definition"));
        }
    }
    // generator is the std element x
    if f.to_std[f.exp[1] as usize] != 2 {
        return Err("refmodel: exp[1] is not x".into());
    }
    // vanishing polynomials vs brute force for t <= 8, a few points
    for t in 0..=8usize {
        for &p in &[0u16, 1, 2, 3, 255, 256, 257, 4097, 0x8000, 0xFFFF, 12345] {
            if f.s(t, p) != f.s_brute(t, p) {
                return Err(format!("refmodel: s_{t}({p}) disagrees with brute force"));
            }
        }
    }
    // Cantor-basis property: s_t(2^t) = 1
    for t in 0..16 {
        if f.s_at_basis[t] != 1 {
            return Err(format!("refmodel: s_{t}(2^{t}) = {} != 1", f.s_at_basis[t]));
        }
    }
    // slot placement is a bijection for a few sizes
    for b in [2usize, 4, 30, 62, 64, 66, 126, 128, 130, 190, 258] {
        let mut seen = vec![false; b];
        for s in 0..b / 2 {
            let (lo, hi) = slot_pos(b, s);
            if seen[lo] || seen[hi] || lo == hi {
                return Err(format!("refmodel: slot placement not injective for b={b}"));
            }
            seen[lo] = true;
            seen[hi] = true;
        }
        if !seen.iter().all(|&v| v) {
            return Err(format!("refmodel: slot placement not surjective for b={b}"));
        }
    }
    Ok(())
}
