//! Executable model of the documented preconditions (C06, C08, C10): for a call, the set of
//! *truthful* errors. A call must return Ok iff the set is empty, otherwise some member of it.

use crate::engines::Kind;
use reed_solomon_simd::Error;

#[derive(Clone, Debug, PartialEq)]
pub enum ErrPat {
    Exact(Error),
    /// NotEnoughShards { original_count: k, original_received_count in o, recovery_received_count in r } with o + r < k
    NotEnough { k: usize, o: (usize, usize), r: (usize, usize) },
    /// TooFewOriginalShards { original_count: k, original_received_count in c }
    TooFew { k: usize, c: (usize, usize) },
}

impl ErrPat {
    pub fn matches(&self, e: &Error) -> bool {
        match (self, e) {
            (ErrPat::Exact(x), e) => x == e,
            (
                ErrPat::NotEnough { k, o, r },
                Error::NotEnoughShards { original_count, original_received_count, recovery_received_count },
            ) => {
                original_count == k
                    && (o.0..=o.1).contains(original_received_count)
                    && (r.0..=r.1).contains(recovery_received_count)
                    && original_received_count + recovery_received_count < *k
            }
            (ErrPat::TooFew { k, c }, Error::TooFewOriginalShards { original_count, original_received_count }) => {
                original_count == k && (c.0..=c.1).contains(original_received_count) && original_received_count < k
            }
            _ => false,
        }
    }
}

pub type Truth = Vec<ErrPat>;

pub fn judge<T>(what: &str, result: &Result<T, Error>, truth: &Truth) -> Result<(), String> {
    match (result, truth.is_empty()) {
        (Ok(_), true) => Ok(()),
        (Ok(_), false) => Err(format!("{what} returned Ok although a documented precondition is violated; truthful errors would be {truth:?}")),
        (Err(e), true) => Err(format!("{what} violates no documented precondition but returned Err({e:?})")),
        (Err(e), false) => {
            if truth.iter().any(|p| p.matches(e)) {
                Ok(())
            } else {
                Err(format!("{what} returned Err({e:?}) which does not truthfully describe any violated precondition; violated: {truth:?}"))
            }
        }
    }
}

pub fn bad_size(b: usize) -> bool {
    b == 0 || b % 2 != 0
}

/// new / reset / validate
pub fn truth_config(kind: Kind, k: usize, r: usize, b: usize) -> Truth {
    let mut t = Vec::new();
    if !kind.env(k, r) {
        t.push(ErrPat::Exact(Error::UnsupportedShardCount { original_count: k, recovery_count: r }));
    }
    if bad_size(b) {
        t.push(ErrPat::Exact(Error::InvalidShardSize { shard_bytes: b }));
    }
    t
}

/// state of an encoder / decoder object as far as the documented contract is concerned
#[derive(Clone, Debug, Default)]
pub struct ObjModel {
    pub k: usize,
    pub r: usize,
    pub b: usize,
    pub enc_count: usize,
    pub originals: std::collections::BTreeSet<usize>,
    pub recovery: std::collections::BTreeSet<usize>,
}

impl ObjModel {
    pub fn new(k: usize, r: usize, b: usize) -> ObjModel {
        ObjModel { k, r, b, ..Default::default() }
    }
    pub fn clear_round(&mut self) {
        self.enc_count = 0;
        self.originals.clear();
        self.recovery.clear();
    }
    pub fn truth_enc_add(&self, len: usize) -> Truth {
        let mut t = Vec::new();
        if self.enc_count >= self.k {
            t.push(ErrPat::Exact(Error::TooManyOriginalShards { original_count: self.k }));
        }
        if len != self.b {
            t.push(ErrPat::Exact(Error::DifferentShardSize { shard_bytes: self.b, got: len }));
        }
        t
    }
    pub fn truth_encode(&self) -> Truth {
        if self.enc_count < self.k {
            vec![ErrPat::Exact(Error::TooFewOriginalShards { original_count: self.k, original_received_count: self.enc_count })]
        } else {
            Vec::new()
        }
    }
    pub fn truth_dec_add(&self, rec: bool, idx: usize, len: usize) -> Truth {
        let mut t = Vec::new();
        if rec {
            if idx >= self.r {
                t.push(ErrPat::Exact(Error::InvalidRecoveryShardIndex { recovery_count: self.r, index: idx }));
            }
            if self.recovery.contains(&idx) {
                t.push(ErrPat::Exact(Error::DuplicateRecoveryShardIndex { index: idx }));
            }
        } else {
            if idx >= self.k {
                t.push(ErrPat::Exact(Error::InvalidOriginalShardIndex { original_count: self.k, index: idx }));
            }
            if self.originals.contains(&idx) {
                t.push(ErrPat::Exact(Error::DuplicateOriginalShardIndex { index: idx }));
            }
        }
        if len != self.b {
            t.push(ErrPat::Exact(Error::DifferentShardSize { shard_bytes: self.b, got: len }));
        }
        t
    }
    pub fn truth_decode(&self) -> Truth {
        let (o, r) = (self.originals.len(), self.recovery.len());
        if o + r < self.k {
            vec![ErrPat::Exact(Error::NotEnoughShards { original_count: self.k, original_received_count: o, recovery_received_count: r })]
        } else {
            Vec::new()
        }
    }
}

/// one-shot encode(k, r, shards with the given lengths)
pub fn truth_oneshot_encode(k: usize, r: usize, lens: &[usize]) -> Truth {
    let mut t = Vec::new();
    if !Kind::Rs.env(k, r) {
        t.push(ErrPat::Exact(Error::UnsupportedShardCount { original_count: k, recovery_count: r }));
    }
    let n = lens.len();
    if n == 0 {
        t.push(ErrPat::TooFew { k, c: (0, 0) });
        return t;
    }
    let b = lens[0];
    if bad_size(b) {
        t.push(ErrPat::Exact(Error::InvalidShardSize { shard_bytes: b }));
    }
    let mut valid = 0;
    for &l in lens {
        if l != b {
            t.push(ErrPat::Exact(Error::DifferentShardSize { shard_bytes: b, got: l }));
        } else {
            valid += 1;
        }
    }
    if n > k {
        t.push(ErrPat::Exact(Error::TooManyOriginalShards { original_count: k }));
    }
    if valid < k {
        // fewer than k usable shards: "too few" is truthful with any count between usable and given
        t.push(ErrPat::TooFew { k, c: (valid.min(n), n) });
    }
    t
}

/// one-shot decode(k, r, originals (index, len), recovery (index, len))
pub fn truth_oneshot_decode(k: usize, r: usize, originals: &[(usize, usize)], recovery: &[(usize, usize)]) -> Truth {
    let mut t = Vec::new();
    if !Kind::Rs.env(k, r) {
        t.push(ErrPat::Exact(Error::UnsupportedShardCount { original_count: k, recovery_count: r }));
    }
    // inferred size: first recovery shard if any; without recovery the docs define none, so every
    // pair of differing lengths / every invalid length among the originals is a truthful complaint
    let mut seen_o = std::collections::BTreeSet::new();
    let mut seen_r = std::collections::BTreeSet::new();
    let mut valid_o = 0usize;
    let mut valid_r = 0usize;
    let inferred: Vec<usize> = if let Some(&(_, b)) = recovery.first() {
        vec![b]
    } else {
        let mut v: Vec<usize> = originals.iter().map(|&(_, l)| l).collect();
        v.sort_unstable();
        v.dedup();
        v
    };
    for &b in &inferred {
        if bad_size(b) {
            t.push(ErrPat::Exact(Error::InvalidShardSize { shard_bytes: b }));
        }
    }
    for &(i, l) in originals {
        let mut ok = true;
        if i >= k {
            t.push(ErrPat::Exact(Error::InvalidOriginalShardIndex { original_count: k, index: i }));
            ok = false;
        }
        if !seen_o.insert(i) {
            t.push(ErrPat::Exact(Error::DuplicateOriginalShardIndex { index: i }));
            ok = false;
        }
        for &b in &inferred {
            if l != b {
                t.push(ErrPat::Exact(Error::DifferentShardSize { shard_bytes: b, got: l }));
                if inferred.len() == 1 {
                    ok = false;
                }
            }
        }
        if ok {
            valid_o += 1;
        }
    }
    for &(i, l) in recovery {
        let mut ok = true;
        if i >= r {
            t.push(ErrPat::Exact(Error::InvalidRecoveryShardIndex { recovery_count: r, index: i }));
            ok = false;
        }
        if !seen_r.insert(i) {
            t.push(ErrPat::Exact(Error::DuplicateRecoveryShardIndex { index: i }));
            ok = false;
        }
        if l != inferred[0] {
            t.push(ErrPat::Exact(Error::DifferentShardSize { shard_bytes: inferred[0], got: l }));
            ok = false;
        }
        if ok {
            valid_r += 1;
        }
    }
    if valid_o + valid_r < k {
        t.push(ErrPat::NotEnough { k, o: (valid_o.min(originals.len()), originals.len()), r: (valid_r.min(recovery.len()), recovery.len()) });
    }
    t
}
