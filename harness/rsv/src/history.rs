//! Histories of calls on one encoder or decoder object (shared by C05, C07, C17 and the fuzz targets).

use crate::engines::*;
use crate::gen::{self, Cfg, RecvSpec, Xs};
use crate::runner::no_panic;
use proptest::prelude::*;
use reed_solomon_simd::Error;
use serde::{Deserialize, Serialize};
use std::collections::{BTreeMap, BTreeSet};

/// configuration drawn independently of the codec family; oriented at interpretation time
#[derive(Clone, Copy, Debug, PartialEq, Eq, Hash, Serialize, Deserialize)]
pub struct RawCfg {
    pub bounded: usize,
    pub other: usize,
    pub flip: bool,
    pub size: usize,
}

impl RawCfg {
    pub fn orient(&self, kind: Kind) -> Cfg {
        // a fixed-rate family used "the other way round" (about one configuration in six, where its envelope allows it)
        let wrong_side = self.flip && (self.bounded + self.other + self.size / 2) % 3 == 0;
        let (k, r) = match kind {
            Kind::High if wrong_side && kind.env(self.bounded, self.other) => (self.bounded, self.other),
            Kind::Low if wrong_side && kind.env(self.other, self.bounded) => (self.other, self.bounded),
            Kind::High => (self.other, self.bounded),
            Kind::Low => (self.bounded, self.other),
            _ => {
                if self.flip {
                    (self.other, self.bounded)
                } else {
                    (self.bounded, self.other)
                }
            }
        };
        Cfg { k, r, b: self.size }
    }
}

pub fn raw_cfg(max_medium: usize) -> BoxedStrategy<RawCfg> {
    (gen::bounded_other(max_medium), any::<bool>())
        .prop_flat_map(|((bounded, other, _), flip)| {
            let s = if bounded + other > 300 { gen::shard_size_small() } else { gen::shard_size() };
            // keep one round below ~1 MiB of shard data
            s.prop_map(move |size| RawCfg { bounded, other, flip, size: if (bounded + other) * size > (1 << 20) { 2 + size % 256 / 2 * 2 } else { size } })
        })
        .boxed()
}

#[derive(Clone, Debug, PartialEq, Eq, Hash, Serialize, Deserialize)]
pub enum Op {
    /// reset to a supported configuration (may switch the default codec's rate)
    Reset(RawCfg),
    /// reset to exactly the configuration the object already has
    ResetSame,
    /// reset to a configuration derived from the current one: its values permuted, or one of them
    /// changed to a neighbour (falls back to the same configuration when the result is not valid)
    ResetDerived { how: u8 },
    /// reset to exactly the configuration the object had `n`+1 successful configuration changes ago
    /// (X -> Y -> X; the same configuration as now when the history is not that long yet)
    ResetBack { n: u8 },
    /// reset that must fail: 0 zero originals, 1 zero recovery, 2 both too large, 3 odd size, 4 zero size,
    /// 5 outside this family's envelope, 6 other counts (possibly the other rate) with odd size, 7 other counts with size 0
    ResetBad { variant: u8, cfg: RawCfg },
    /// a failing reset (these counts, invalid size) immediately retried with the size corrected
    ResetRetry { cfg: RawCfg, zero: bool },
    /// into_parts -> new(Some(work)) of another family / engine (not available for ReedSolomon*)
    /// `same`: keep the current counts and shard size if the new family supports them
    Recycle { kind: Kind, eng: Eng, cfg: RawCfg, same: bool },
    /// a complete round: all required adds, then encode/decode; result read (compared) or just dropped
    Round { seed: u64, recv: RecvSpec, read: bool },
    /// some adds of a round, then nothing (abandoned unless more adds follow)
    Partial { seed: u64, recv: RecvSpec, n_raw: u16 },
    /// one add that must fail
    BadAdd { variant: u8, raw: u16, seed: u64 },
    /// encode/decode in whatever state the object is (usually premature)
    Finish { read: bool },
}

#[derive(Clone, Debug, PartialEq, Eq, Hash, Serialize, Deserialize)]
pub struct History {
    pub dec: bool,
    pub kind: Kind,
    pub eng: Eng,
    pub init: RawCfg,
    pub poison: bool,
    pub ops: Vec<Op>,
}

pub struct OpWeights {
    pub reset: u32,
    pub reset_bad: u32,
    pub recycle: u32,
    pub round: u32,
    pub partial: u32,
    pub bad_add: u32,
    pub finish: u32,
}

pub fn op(max_medium: usize, w: &OpWeights) -> BoxedStrategy<Op> {
    prop_oneof![
        w.reset => prop_oneof![5 => raw_cfg(max_medium).prop_map(Op::Reset), 1 => Just(Op::ResetSame), 2 => (0u8..14).prop_map(|how| Op::ResetDerived { how }), 1 => (0u8..3).prop_map(|n| Op::ResetBack { n })],
        w.reset_bad => prop_oneof![
            3 => (0u8..8, raw_cfg(max_medium)).prop_map(|(variant, cfg)| Op::ResetBad { variant, cfg }),
            1 => (raw_cfg(max_medium), any::<bool>()).prop_map(|(cfg, zero)| Op::ResetRetry { cfg, zero }),
        ],
        w.recycle => (gen::kind_rate(), gen::engine(), raw_cfg(max_medium), prop::bool::weighted(0.4)).prop_map(|(kind, eng, cfg, same)| Op::Recycle { kind, eng, cfg, same }),
        w.round => (any::<u64>(), gen::recv_spec(), prop::bool::weighted(0.85)).prop_map(|(seed, recv, read)| Op::Round { seed, recv, read }),
        w.partial => (any::<u64>(), gen::recv_spec(), any::<u16>()).prop_map(|(seed, recv, n_raw)| Op::Partial { seed, recv, n_raw }),
        w.bad_add => (0u8..11, any::<u16>(), any::<u64>()).prop_map(|(variant, raw, seed)| Op::BadAdd { variant, raw, seed }),
        w.finish => any::<bool>().prop_map(|read| Op::Finish { read }),
    ]
    .boxed()
}

pub fn history(max_medium: usize, max_ops: usize, w: OpWeights) -> BoxedStrategy<History> {
    (any::<bool>(), gen::kind_any()).prop_flat_map(move |(dec, kind)| {
        (
            gen::engine_for(kind),
            raw_cfg(max_medium),
            any::<bool>(),
            prop_oneof![9 => prop::collection::vec(op(max_medium, &w), 1..=max_ops), 1 => prop::collection::vec(op(max_medium.min(120), &w), max_ops..=max_ops * 3)],
        )
            .prop_map(move |(eng, init, poison, ops)| History { dec, kind, eng, init, poison, ops })
    })
    .boxed()
}

// ----------------------------------------------------------------------
// low-level calls and their outcomes

#[derive(Clone, Debug, PartialEq, Eq)]
pub enum Call {
    Reset(usize, usize, usize),
    AddO(usize, Vec<u8>),
    AddR(usize, Vec<u8>),
    Finish { read: bool },
}

#[derive(Clone, Debug, PartialEq)]
pub enum Outcome {
    Unit(Result<(), Error>),
    Enc(Result<Option<Vec<Vec<u8>>>, Error>),
    Dec(Result<Option<BTreeMap<usize, Vec<u8>>>, Error>),
}

impl Outcome {
    pub fn is_ok(&self) -> bool {
        match self {
            Outcome::Unit(r) => r.is_ok(),
            Outcome::Enc(r) => r.is_ok(),
            Outcome::Dec(r) => r.is_ok(),
        }
    }
    pub fn brief(&self) -> String {
        match self {
            Outcome::Unit(r) => format!("{r:?}"),
            Outcome::Enc(Ok(Some(v))) => format!("Ok({} recovery shards, hash {:016x})", v.len(), crate::runner::hash_of(v)),
            Outcome::Enc(Ok(None)) => "Ok(dropped unread)".into(),
            Outcome::Enc(Err(e)) => format!("Err({e:?})"),
            Outcome::Dec(Ok(Some(m))) => format!("Ok(restored {:?}, hash {:016x})", m.keys().take(8).collect::<Vec<_>>(), crate::runner::hash_of(m)),
            Outcome::Dec(Ok(None)) => "Ok(dropped unread)".into(),
            Outcome::Dec(Err(e)) => format!("Err({e:?})"),
        }
    }
}

pub enum Obj {
    Enc(Box<dyn DynEnc>),
    Dec(Box<dyn DynDec>),
}

impl Obj {
    pub fn make(dec: bool, kind: Kind, eng: Eng, c: Cfg) -> Result<Obj, Error> {
        // None, Some(Work::new()) and Some(Work::default()) are all "no working space yet"
        let variant = c.k.wrapping_add(c.r).wrapping_add(c.b / 2) % 3;
        Ok(if dec {
            let work = match variant {
                0 => None,
                1 => Some(reed_solomon_simd::rate::DecoderWork::new()),
                _ => Some(reed_solomon_simd::rate::DecoderWork::default()),
            };
            Obj::Dec(make_dec(kind, eng, c.k, c.r, c.b, work)?)
        } else {
            let work = match variant {
                0 => None,
                1 => Some(reed_solomon_simd::rate::EncoderWork::new()),
                _ => Some(reed_solomon_simd::rate::EncoderWork::default()),
            };
            Obj::Enc(make_enc(kind, eng, c.k, c.r, c.b, work)?)
        })
    }

    /// into_parts -> new(Some(work)); None when the object has no into_parts (ReedSolomon*)
    pub fn recycle(self, kind: Kind, eng: Eng, c: Cfg) -> Result<Obj, Error> {
        Ok(match self {
            Obj::Enc(e) => {
                let work = e.into_work();
                Obj::Enc(make_enc(kind, eng, c.k, c.r, c.b, work)?)
            }
            Obj::Dec(d) => {
                let work = d.into_work();
                Obj::Dec(make_dec(kind, eng, c.k, c.r, c.b, work)?)
            }
        })
    }

    /// Applies one call; a panic is reported as Err(message).
    pub fn apply(&mut self, call: &Call) -> Result<Outcome, String> {
        no_panic(|| match (self, call) {
            (Obj::Enc(e), Call::Reset(k, r, b)) => Outcome::Unit(e.reset(*k, *r, *b)),
            (Obj::Dec(d), Call::Reset(k, r, b)) => Outcome::Unit(d.reset(*k, *r, *b)),
            (Obj::Enc(e), Call::AddO(_, s)) => Outcome::Unit(e.add(s)),
            (Obj::Enc(_), Call::AddR(..)) => Outcome::Unit(Ok(())),
            (Obj::Dec(d), Call::AddO(i, s)) => Outcome::Unit(d.add_original(*i, s)),
            (Obj::Dec(d), Call::AddR(i, s)) => Outcome::Unit(d.add_recovery(*i, s)),
            (Obj::Enc(e), Call::Finish { read }) => {
                let mut out = None;
                let r = e.encode_with(&mut |res| {
                    if *read {
                        out = Some(enc_snapshot(res));
                    }
                });
                Outcome::Enc(r.map(|()| out))
            }
            (Obj::Dec(d), Call::Finish { read }) => {
                let mut out = None;
                let r = d.decode_with(&mut |res| {
                    if *read {
                        out = Some(dec_snapshot(res));
                    }
                });
                Outcome::Dec(r.map(|()| out))
            }
        })
    }
}

// ----------------------------------------------------------------------
// expansion of ops into calls, given what the interpreter knows about the object

/// What has been accepted (returned Ok) since the last reset / dropped result.
#[derive(Default, Clone, Debug)]
pub struct Accepted {
    pub originals: BTreeSet<usize>,
    pub recovery: BTreeSet<usize>,
    pub enc_count: usize,
}

impl Accepted {
    pub fn clear(&mut self) {
        *self = Accepted::default();
    }
    pub fn note(&mut self, dec: bool, call: &Call) {
        match call {
            Call::AddO(i, _) => {
                if dec {
                    self.originals.insert(*i);
                } else {
                    self.enc_count += 1;
                }
            }
            Call::AddR(i, _) => {
                if dec {
                    self.recovery.insert(*i);
                }
            }
            _ => {}
        }
    }
}

pub fn shard_bytes(seed: u64, rec: bool, idx: usize, len: usize) -> Vec<u8> {
    let mut rng = Xs::new(seed ^ (idx as u64).wrapping_mul(0x9E37) ^ if rec { 0xABCDEF } else { 0 });
    let mut v = vec![0u8; len];
    rng.fill(&mut v);
    v
}

/// calls of a complete round, taking already-accepted shards into account
pub fn round_calls(dec: bool, c: Cfg, acc: &Accepted, seed: u64, recv: &RecvSpec, limit: Option<usize>, read: Option<bool>) -> Vec<Call> {
    let mut calls = Vec::new();
    if dec {
        for g in recv.arrival(c.k, c.r) {
            let dup = if g.rec { acc.recovery.contains(&g.idx) } else { acc.originals.contains(&g.idx) };
            if dup {
                continue;
            }
            let s = shard_bytes(seed, g.rec, g.idx, c.b);
            calls.push(if g.rec { Call::AddR(g.idx, s) } else { Call::AddO(g.idx, s) });
        }
    } else {
        for i in acc.enc_count..c.k {
            calls.push(Call::AddO(i, shard_bytes(seed, false, i, c.b)));
        }
    }
    if let Some(n) = limit {
        calls.truncate(n);
    }
    if let Some(read) = read {
        calls.push(Call::Finish { read });
    }
    calls
}

pub fn bad_reset(variant: u8, kind: Kind, cur: Cfg, other: Cfg) -> Call {
    match variant {
        6 => Call::Reset(other.k, other.r, other.b + 1),
        7 => Call::Reset(other.k, other.r, 0),
        0 => Call::Reset(0, cur.r, cur.b),
        1 => Call::Reset(cur.k, 0, cur.b),
        2 => Call::Reset(40000, 40000, cur.b),
        3 => Call::Reset(cur.k, cur.r, cur.b + 1),
        4 => Call::Reset(cur.k, cur.r, 0),
        _ => match kind {
            // inside the default envelope but outside the dedicated one
            Kind::High => Call::Reset(3, 65000, cur.b),
            Kind::Low => Call::Reset(65000, 3, cur.b),
            _ => Call::Reset(65536, 1, cur.b),
        },
    }
}

pub fn bad_add(dec: bool, c: Cfg, acc: &Accepted, variant: u8, raw: u16, seed: u64) -> Vec<Call> {
    let big = [c.k, c.k + 1, 65536, 1usize << 40];
    if dec {
        let oi = gen::idx_map(raw, c.k - 1).min(c.k - 1);
        let ri = gen::idx_map(raw, c.r - 1).min(c.r - 1);
        // 7..=10: TWO faults in one call - an index that was already accepted (or is out of range) AND a wrong length
        if (7..=10).contains(&variant) {
            let bad_len = [c.b + 2, c.b.saturating_sub(2), c.b + 64, 0][(raw as usize / 7) % 4];
            return match variant {
                7 => match acc.originals.iter().nth(raw as usize % acc.originals.len().max(1)) {
                    Some(&i) => vec![Call::AddO(i, shard_bytes(seed, false, i, bad_len))],
                    None => vec![Call::AddO(oi, shard_bytes(seed, false, oi, c.b)), Call::AddO(oi, shard_bytes(seed ^ 0xD0B1, false, oi, bad_len))],
                },
                8 => match acc.recovery.iter().nth(raw as usize % acc.recovery.len().max(1)) {
                    Some(&i) => vec![Call::AddR(i, shard_bytes(seed, true, i, bad_len))],
                    None => vec![Call::AddR(ri, shard_bytes(seed, true, ri, c.b)), Call::AddR(ri, shard_bytes(seed ^ 0xD0B1, true, ri, bad_len))],
                },
                9 => vec![Call::AddO(big[raw as usize % 4], shard_bytes(seed, false, 0, bad_len))],
                _ => vec![Call::AddR([c.r, c.r + 1, 65536, 1usize << 40][raw as usize % 4], shard_bytes(seed, true, 0, bad_len))],
            };
        }
        match variant {
            0 => vec![Call::AddO(oi, shard_bytes(seed, false, oi, c.b + 2))],
            1 => vec![Call::AddR(ri, Vec::new())],
            2 => vec![Call::AddR(ri, shard_bytes(seed, true, ri, c.b + 1))],
            3 => vec![Call::AddO(big[raw as usize % 4], shard_bytes(seed, false, 0, c.b))],
            4 => {
                let bigr = [c.r, c.r + 1, 65536, 1usize << 40];
                vec![Call::AddR(bigr[raw as usize % 4], shard_bytes(seed, true, 0, c.b))]
            }
            5 => match acc.originals.iter().nth(raw as usize % acc.originals.len().max(1)) {
                Some(&i) => vec![Call::AddO(i, shard_bytes(seed, false, i, c.b))],
                // nothing accepted yet: add one shard, then the same index again with other bytes
                None => vec![Call::AddO(0, shard_bytes(seed, false, 0, c.b)), Call::AddO(0, shard_bytes(seed ^ 0xD0B1, false, 0, c.b))],
            },
            _ => match acc.recovery.iter().nth(raw as usize % acc.recovery.len().max(1)) {
                Some(&i) => vec![Call::AddR(i, shard_bytes(seed, true, i, c.b))],
                None => vec![Call::AddR(0, shard_bytes(seed, true, 0, c.b)), Call::AddR(0, shard_bytes(seed ^ 0xD0B1, true, 0, c.b))],
            },
        }
    } else {
        match variant % 4 {
            0 => vec![Call::AddO(0, shard_bytes(seed, false, 0, c.b + 2))],
            1 => vec![Call::AddO(0, Vec::new())],
            2 => vec![Call::AddO(0, shard_bytes(seed, false, 0, c.b.saturating_sub(2)))],
            _ => {
                // too many: fill up, then one more
                let mut v: Vec<Call> = (acc.enc_count..c.k).map(|i| Call::AddO(i, shard_bytes(seed, false, i, c.b))).collect();
                v.push(Call::AddO(c.k, shard_bytes(seed, false, c.k, c.b)));
                v
            }
        }
    }
}

/// Expands one op into calls (Recycle is handled by the interpreters themselves).
/// `past`: the configurations the object had before the current one (oldest first)
pub fn expand(op: &Op, dec: bool, kind: Kind, cur: Cfg, acc: &Accepted, past: &[Cfg]) -> Vec<Call> {
    match op {
        Op::ResetBack { n } => {
            let c = past.iter().rev().filter(|c| kind.env(c.k, c.r)).nth(*n as usize).or(past.first()).copied().filter(|c| kind.env(c.k, c.r)).unwrap_or(cur);
            vec![Call::Reset(c.k, c.r, c.b)]
        }
        Op::Reset(rc) => {
            let c = rc.orient(kind);
            vec![Call::Reset(c.k, c.r, c.b)]
        }
        Op::ResetSame => vec![Call::Reset(cur.k, cur.r, cur.b)],
        Op::ResetDerived { how } => {
            let c = derived_cfg(kind, cur, *how);
            vec![Call::Reset(c.k, c.r, c.b)]
        }
        Op::ResetRetry { cfg, zero } => {
            let c = cfg.orient(kind);
            vec![Call::Reset(c.k, c.r, if *zero { 0 } else { c.b + 1 }), Call::Reset(c.k, c.r, c.b)]
        }
        Op::ResetBad { variant, cfg } => vec![bad_reset(*variant, kind, cur, cfg.orient(kind))],
        Op::Recycle { .. } => Vec::new(),
        Op::Round { seed, recv, read } => round_calls(dec, cur, acc, *seed, recv, None, Some(*read)),
        Op::Partial { seed, recv, n_raw } => {
            let total = if dec { cur.k + cur.r } else { cur.k };
            let n = gen::idx_map(*n_raw, total);
            round_calls(dec, cur, acc, *seed, recv, Some(n), None)
        }
        Op::BadAdd { variant, raw, seed } => bad_add(dec, cur, acc, *variant, *raw, *seed),
        Op::Finish { read } => vec![Call::Finish { read: *read }],
    }
}

/// a configuration related to `cur`: permutations of (k, r, b) and single-value neighbours
pub fn derived_cfg(kind: Kind, cur: Cfg, how: u8) -> Cfg {
    let Cfg { k, r, b } = cur;
    let c = match how {
        0 => Cfg { k: r, r: k, b },
        1 => Cfg { k, r: b, b: r },
        2 => Cfg { k: b, r, b: k },
        3 => Cfg { k: r, r: b, b: k },
        4 => Cfg { k: b, r: k, b: r },
        5 => Cfg { k: k + 1, r, b },
        6 => Cfg { k: k.saturating_sub(1), r, b },
        7 => Cfg { k, r: r + 1, b },
        8 => Cfg { k, r: r.saturating_sub(1), b },
        9 => Cfg { k, r, b: b + 2 },
        10 => Cfg { k, r, b: b.saturating_sub(2) },
        11 => Cfg { k, r, b: b * 2 },
        12 => Cfg { k: k * 2, r, b },
        _ => Cfg { k, r: r * 2, b },
    };
    let ok = kind.env(c.k, c.r) && c.b >= 2 && c.b % 2 == 0 && (c.k + c.r) * c.b <= (2 << 20) && c.k + c.r <= 4000;
    if ok {
        c
    } else {
        cur
    }
}

/// configuration a Recycle op leads to
pub fn recycle_cfg(op_kind: Kind, cfg: &RawCfg, same: bool, cur: Cfg) -> Cfg {
    if same && op_kind.env(cur.k, cur.r) {
        cur
    } else {
        cfg.orient(op_kind)
    }
}

pub fn op_label(op: &Op) -> &'static str {
    match op {
        Op::Reset(_) => "reset",
        Op::ResetSame => "reset_same",
        Op::ResetDerived { .. } => "reset_derived",
        Op::ResetBack { .. } => "reset_back",
        Op::ResetRetry { .. } => "reset_retry",
        Op::ResetBad { .. } => "reset_bad",
        Op::Recycle { .. } => "recycle",
        Op::Round { .. } => "round",
        Op::Partial { .. } => "partial",
        Op::BadAdd { .. } => "bad_add",
        Op::Finish { .. } => "finish",
    }
}
