//! Engines under test and dynamic codec wrappers over (kind, engine).

use reed_solomon_simd::engine::{Avx2, DefaultEngine, Engine, Naive, NoSimd, Ssse3};
use reed_solomon_simd::rate::{
    DecoderWork, DefaultRate, DefaultRateDecoder, DefaultRateEncoder, EncoderWork, HighRate,
    HighRateDecoder, HighRateEncoder, LowRate, LowRateDecoder, LowRateEncoder, Rate, RateDecoder,
    RateEncoder,
};
use reed_solomon_simd::{
    DecoderResult, EncoderResult, Error, ReedSolomonDecoder, ReedSolomonEncoder,
};
use serde::{Deserialize, Serialize};
use std::collections::BTreeMap;
use std::marker::PhantomData;

#[cfg(feature = "neon")]
pub use rsv_neon::NeonEmu;

#[derive(Clone, Copy, Debug, PartialEq, Eq, Hash, PartialOrd, Ord, Serialize, Deserialize)]
pub enum Eng {
    Naive,
    NoSimd,
    Ssse3,
    Avx2,
    Default,
    Neon,
}

pub const ALL_ENGINES: [Eng; 6] = [
    Eng::Naive,
    Eng::NoSimd,
    Eng::Ssse3,
    Eng::Avx2,
    Eng::Default,
    Eng::Neon,
];

impl Eng {
    pub fn available(self) -> bool {
        match self {
            Eng::Naive | Eng::NoSimd | Eng::Default => true,
            Eng::Ssse3 => std::is_x86_feature_detected!("ssse3"),
            Eng::Avx2 => std::is_x86_feature_detected!("avx2"),
            Eng::Neon => cfg!(feature = "neon"),
        }
    }
    pub fn name(self) -> &'static str {
        match self {
            Eng::Naive => "Naive",
            Eng::NoSimd => "NoSimd",
            Eng::Ssse3 => "Ssse3",
            Eng::Avx2 => "Avx2",
            Eng::Default => "Default",
            Eng::Neon => "NeonEmu",
        }
    }
}

/// engines usable on this host
pub fn engines() -> Vec<Eng> {
    ALL_ENGINES.iter().copied().filter(|e| e.available()).collect()
}

/// Map a raw draw onto an available engine (monotone in `raw`).
pub fn pick_engine(raw: u8) -> Eng {
    let es = engines();
    es[(raw as usize * es.len()) >> 8]
}

thread_local! {
    static FLIP: std::cell::Cell<u32> = const { std::cell::Cell::new(0) };
}

/// alternates per thread: both public ways of constructing an engine (new / Default) get used
fn flip() -> bool {
    FLIP.with(|f| {
        f.set(f.get().wrapping_add(1));
        f.get() % 2 == 0
    })
}

pub trait Mk: Engine + Sized {
    fn mk() -> Self;
}
impl Mk for Naive {
    fn mk() -> Self {
        if flip() {
            Naive::new()
        } else {
            <Naive as Default>::default()
        }
    }
}
impl Mk for NoSimd {
    fn mk() -> Self {
        if flip() {
            NoSimd::new()
        } else {
            <NoSimd as Default>::default()
        }
    }
}
impl Mk for Ssse3 {
    fn mk() -> Self {
        if flip() {
            Ssse3::new()
        } else {
            <Ssse3 as Default>::default()
        }
    }
}
impl Mk for Avx2 {
    fn mk() -> Self {
        if flip() {
            Avx2::new()
        } else {
            <Avx2 as Default>::default()
        }
    }
}
impl Mk for DefaultEngine {
    fn mk() -> Self {
        if flip() {
            DefaultEngine::new()
        } else {
            <DefaultEngine as Default>::default()
        }
    }
}
#[cfg(feature = "neon")]
impl Mk for NeonEmu {
    fn mk() -> Self {
        NeonEmu::new()
    }
}

/// `with_engine!(eng, E, { body using type E })`
#[macro_export]
macro_rules! with_engine {
    ($eng:expr, $E:ident, $body:block) => {
        match $eng {
            $crate::engines::Eng::Naive => {
                type $E = reed_solomon_simd::engine::Naive;
                $body
            }
            $crate::engines::Eng::NoSimd => {
                type $E = reed_solomon_simd::engine::NoSimd;
                $body
            }
            $crate::engines::Eng::Ssse3 => {
                type $E = reed_solomon_simd::engine::Ssse3;
                $body
            }
            $crate::engines::Eng::Avx2 => {
                type $E = reed_solomon_simd::engine::Avx2;
                $body
            }
            $crate::engines::Eng::Default => {
                type $E = reed_solomon_simd::engine::DefaultEngine;
                $body
            }
            #[cfg(feature = "neon")]
            $crate::engines::Eng::Neon => {
                type $E = $crate::engines::NeonEmu;
                $body
            }
            #[cfg(not(feature = "neon"))]
            $crate::engines::Eng::Neon => {
                panic!("harness: Neon emulation not built")
            }
        }
    };
}

/// Codec family. `Rs` = ReedSolomonEncoder/Decoder (always DefaultEngine, default rate).
#[derive(Clone, Copy, Debug, PartialEq, Eq, Hash, PartialOrd, Ord, Serialize, Deserialize)]
pub enum Kind {
    Rs,
    Default,
    High,
    Low,
}

impl Kind {
    pub fn name(self) -> &'static str {
        match self {
            Kind::Rs => "Rs",
            Kind::Default => "Default",
            Kind::High => "High",
            Kind::Low => "Low",
        }
    }
    /// reference envelope of this codec family
    pub fn env(self, k: usize, r: usize) -> bool {
        use crate::refmodel::*;
        match self {
            Kind::Rs | Kind::Default => env_default(k as u128, r as u128),
            Kind::High => env_high(k as u128, r as u128),
            Kind::Low => env_low(k as u128, r as u128),
        }
    }
    /// which dedicated rate this kind uses for a supported (k, r): true = high
    pub fn is_high(self, k: usize, r: usize) -> bool {
        match self {
            Kind::High => true,
            Kind::Low => false,
            _ => crate::refmodel::rule_high(k, r),
        }
    }
}

// ----------------------------------------------------------------------
// Dynamic encoder

pub trait DynEnc: Send {
    fn add(&mut self, shard: &[u8]) -> Result<(), Error>;
    /// Runs encode; on Ok calls `f` with the result (still borrowed from the encoder), then drops it.
    fn encode_with(&mut self, f: &mut dyn FnMut(&EncoderResult)) -> Result<(), Error>;
    fn reset(&mut self, k: usize, r: usize, b: usize) -> Result<(), Error>;
    fn into_work(self: Box<Self>) -> Option<EncoderWork>;
}

struct RateEnc<E: Engine, T: RateEncoder<E>>(T, PhantomData<E>);

impl<E: Engine + Send, T: RateEncoder<E> + Send> DynEnc for RateEnc<E, T> {
    fn add(&mut self, shard: &[u8]) -> Result<(), Error> {
        self.0.add_original_shard(shard)
    }
    fn encode_with(&mut self, f: &mut dyn FnMut(&EncoderResult)) -> Result<(), Error> {
        let res = self.0.encode()?;
        f(&res);
        Ok(())
    }
    fn reset(&mut self, k: usize, r: usize, b: usize) -> Result<(), Error> {
        self.0.reset(k, r, b)
    }
    fn into_work(self: Box<Self>) -> Option<EncoderWork> {
        Some(self.0.into_parts().1)
    }
}

struct RsEnc(ReedSolomonEncoder);

impl DynEnc for RsEnc {
    fn add(&mut self, shard: &[u8]) -> Result<(), Error> {
        self.0.add_original_shard(shard)
    }
    fn encode_with(&mut self, f: &mut dyn FnMut(&EncoderResult)) -> Result<(), Error> {
        let res = self.0.encode()?;
        f(&res);
        Ok(())
    }
    fn reset(&mut self, k: usize, r: usize, b: usize) -> Result<(), Error> {
        self.0.reset(k, r, b)
    }
    fn into_work(self: Box<Self>) -> Option<EncoderWork> {
        None
    }
}

pub fn make_enc(
    kind: Kind,
    eng: Eng,
    k: usize,
    r: usize,
    b: usize,
    work: Option<EncoderWork>,
) -> Result<Box<dyn DynEnc>, Error> {
    if kind == Kind::Rs {
        return Ok(Box::new(RsEnc(ReedSolomonEncoder::new(k, r, b)?)));
    }
    with_engine!(eng, E, {
        Ok(match kind {
            Kind::Default => Box::new(RateEnc::<E, _>(
                DefaultRateEncoder::<E>::new(k, r, b, E::mk(), work)?,
                PhantomData,
            )) as Box<dyn DynEnc>,
            Kind::High => Box::new(RateEnc::<E, _>(
                HighRateEncoder::<E>::new(k, r, b, E::mk(), work)?,
                PhantomData,
            )),
            Kind::Low => Box::new(RateEnc::<E, _>(
                LowRateEncoder::<E>::new(k, r, b, E::mk(), work)?,
                PhantomData,
            )),
            Kind::Rs => unreachable!(),
        })
    })
}

// ----------------------------------------------------------------------
// Dynamic decoder

pub trait DynDec: Send {
    fn add_original(&mut self, index: usize, shard: &[u8]) -> Result<(), Error>;
    fn add_recovery(&mut self, index: usize, shard: &[u8]) -> Result<(), Error>;
    fn decode_with(&mut self, f: &mut dyn FnMut(&DecoderResult)) -> Result<(), Error>;
    fn reset(&mut self, k: usize, r: usize, b: usize) -> Result<(), Error>;
    fn into_work(self: Box<Self>) -> Option<DecoderWork>;
}

struct RateDec<E: Engine, T: RateDecoder<E>>(T, PhantomData<E>);

impl<E: Engine + Send, T: RateDecoder<E> + Send> DynDec for RateDec<E, T> {
    fn add_original(&mut self, index: usize, shard: &[u8]) -> Result<(), Error> {
        self.0.add_original_shard(index, shard)
    }
    fn add_recovery(&mut self, index: usize, shard: &[u8]) -> Result<(), Error> {
        self.0.add_recovery_shard(index, shard)
    }
    fn decode_with(&mut self, f: &mut dyn FnMut(&DecoderResult)) -> Result<(), Error> {
        let res = self.0.decode()?;
        f(&res);
        Ok(())
    }
    fn reset(&mut self, k: usize, r: usize, b: usize) -> Result<(), Error> {
        self.0.reset(k, r, b)
    }
    fn into_work(self: Box<Self>) -> Option<DecoderWork> {
        Some(self.0.into_parts().1)
    }
}

struct RsDec(ReedSolomonDecoder);

impl DynDec for RsDec {
    fn add_original(&mut self, index: usize, shard: &[u8]) -> Result<(), Error> {
        self.0.add_original_shard(index, shard)
    }
    fn add_recovery(&mut self, index: usize, shard: &[u8]) -> Result<(), Error> {
        self.0.add_recovery_shard(index, shard)
    }
    fn decode_with(&mut self, f: &mut dyn FnMut(&DecoderResult)) -> Result<(), Error> {
        let res = self.0.decode()?;
        f(&res);
        Ok(())
    }
    fn reset(&mut self, k: usize, r: usize, b: usize) -> Result<(), Error> {
        self.0.reset(k, r, b)
    }
    fn into_work(self: Box<Self>) -> Option<DecoderWork> {
        None
    }
}

pub fn make_dec(
    kind: Kind,
    eng: Eng,
    k: usize,
    r: usize,
    b: usize,
    work: Option<DecoderWork>,
) -> Result<Box<dyn DynDec>, Error> {
    if kind == Kind::Rs {
        return Ok(Box::new(RsDec(ReedSolomonDecoder::new(k, r, b)?)));
    }
    with_engine!(eng, E, {
        Ok(match kind {
            Kind::Default => Box::new(RateDec::<E, _>(
                DefaultRateDecoder::<E>::new(k, r, b, E::mk(), work)?,
                PhantomData,
            )) as Box<dyn DynDec>,
            Kind::High => Box::new(RateDec::<E, _>(
                HighRateDecoder::<E>::new(k, r, b, E::mk(), work)?,
                PhantomData,
            )),
            Kind::Low => Box::new(RateDec::<E, _>(
                LowRateDecoder::<E>::new(k, r, b, E::mk(), work)?,
                PhantomData,
            )),
            Kind::Rs => unreachable!(),
        })
    })
}

// ----------------------------------------------------------------------
// Static API surface per (kind, engine): supports / validate through every layer

#[derive(Clone, Copy, Debug, PartialEq, Eq, Hash, Serialize, Deserialize)]
pub enum Layer {
    Rate,
    Encoder,
    Decoder,
}

pub fn supports(kind: Kind, eng: Eng, layer: Layer, k: usize, r: usize) -> bool {
    if kind == Kind::Rs {
        return match layer {
            Layer::Decoder => ReedSolomonDecoder::supports(k, r),
            _ => ReedSolomonEncoder::supports(k, r),
        };
    }
    with_engine!(eng, E, {
        match (kind, layer) {
            (Kind::Default, Layer::Rate) => <DefaultRate<E> as Rate<E>>::supports(k, r),
            (Kind::Default, Layer::Encoder) => {
                <DefaultRateEncoder<E> as RateEncoder<E>>::supports(k, r)
            }
            (Kind::Default, Layer::Decoder) => {
                <DefaultRateDecoder<E> as RateDecoder<E>>::supports(k, r)
            }
            (Kind::High, Layer::Rate) => <HighRate<E> as Rate<E>>::supports(k, r),
            (Kind::High, Layer::Encoder) => <HighRateEncoder<E> as RateEncoder<E>>::supports(k, r),
            (Kind::High, Layer::Decoder) => <HighRateDecoder<E> as RateDecoder<E>>::supports(k, r),
            (Kind::Low, Layer::Rate) => <LowRate<E> as Rate<E>>::supports(k, r),
            (Kind::Low, Layer::Encoder) => <LowRateEncoder<E> as RateEncoder<E>>::supports(k, r),
            (Kind::Low, Layer::Decoder) => <LowRateDecoder<E> as RateDecoder<E>>::supports(k, r),
            (Kind::Rs, _) => unreachable!(),
        }
    })
}

/// `validate` exists on Rate / RateEncoder / RateDecoder (not on ReedSolomon*).
pub fn validate(
    kind: Kind,
    eng: Eng,
    layer: Layer,
    k: usize,
    r: usize,
    b: usize,
) -> Option<Result<(), Error>> {
    if kind == Kind::Rs {
        return None;
    }
    Some(with_engine!(eng, E, {
        match (kind, layer) {
            (Kind::Default, Layer::Rate) => <DefaultRate<E> as Rate<E>>::validate(k, r, b),
            (Kind::Default, Layer::Encoder) => {
                <DefaultRateEncoder<E> as RateEncoder<E>>::validate(k, r, b)
            }
            (Kind::Default, Layer::Decoder) => {
                <DefaultRateDecoder<E> as RateDecoder<E>>::validate(k, r, b)
            }
            (Kind::High, Layer::Rate) => <HighRate<E> as Rate<E>>::validate(k, r, b),
            (Kind::High, Layer::Encoder) => {
                <HighRateEncoder<E> as RateEncoder<E>>::validate(k, r, b)
            }
            (Kind::High, Layer::Decoder) => {
                <HighRateDecoder<E> as RateDecoder<E>>::validate(k, r, b)
            }
            (Kind::Low, Layer::Rate) => <LowRate<E> as Rate<E>>::validate(k, r, b),
            (Kind::Low, Layer::Encoder) => <LowRateEncoder<E> as RateEncoder<E>>::validate(k, r, b),
            (Kind::Low, Layer::Decoder) => <LowRateDecoder<E> as RateDecoder<E>>::validate(k, r, b),
            (Kind::Rs, _) => unreachable!(),
        }
    }))
}

/// Construction through `Rate::encoder` / `Rate::decoder` (the provided trait methods).
pub fn rate_encoder_ok(kind: Kind, eng: Eng, k: usize, r: usize, b: usize) -> Option<Result<(), Error>> {
    if kind == Kind::Rs {
        return None;
    }
    Some(with_engine!(eng, E, {
        match kind {
            Kind::Default => <DefaultRate<E> as Rate<E>>::encoder(k, r, b, E::mk(), None).map(|_| ()),
            Kind::High => <HighRate<E> as Rate<E>>::encoder(k, r, b, E::mk(), None).map(|_| ()),
            Kind::Low => <LowRate<E> as Rate<E>>::encoder(k, r, b, E::mk(), None).map(|_| ()),
            Kind::Rs => unreachable!(),
        }
    }))
}

pub fn rate_decoder_ok(kind: Kind, eng: Eng, k: usize, r: usize, b: usize) -> Option<Result<(), Error>> {
    if kind == Kind::Rs {
        return None;
    }
    Some(with_engine!(eng, E, {
        match kind {
            Kind::Default => <DefaultRate<E> as Rate<E>>::decoder(k, r, b, E::mk(), None).map(|_| ()),
            Kind::High => <HighRate<E> as Rate<E>>::decoder(k, r, b, E::mk(), None).map(|_| ()),
            Kind::Low => <LowRate<E> as Rate<E>>::decoder(k, r, b, E::mk(), None).map(|_| ()),
            Kind::Rs => unreachable!(),
        }
    }))
}

// ----------------------------------------------------------------------
// Convenience: whole rounds

/// Owned snapshot of an encode result.
pub fn enc_snapshot(res: &EncoderResult) -> Vec<Vec<u8>> {
    res.recovery_iter().map(|s| s.to_vec()).collect()
}

pub fn dec_snapshot(res: &DecoderResult) -> BTreeMap<usize, Vec<u8>> {
    res.restored_original_iter()
        .map(|(i, s)| (i, s.to_vec()))
        .collect()
}

pub fn encode_all(
    kind: Kind,
    eng: Eng,
    k: usize,
    r: usize,
    b: usize,
    data: &[Vec<u8>],
) -> Result<Vec<Vec<u8>>, Error> {
    let mut enc = make_enc(kind, eng, k, r, b, None)?;
    encode_on(&mut *enc, data)
}

/// a copy of `shard` that starts `off` bytes past an aligned address (input shards may live anywhere)
pub struct Shifted {
    buf: Vec<u8>,
    start: usize,
    len: usize,
}

impl Shifted {
    pub fn new(shard: &[u8], off: usize) -> Shifted {
        let mut buf = vec![0u8; shard.len() + 128];
        let start = (64 - buf.as_ptr() as usize % 64) % 64 + off % 64;
        buf[start..start + shard.len()].copy_from_slice(shard);
        Shifted { buf, start, len: shard.len() }
    }
    pub fn get(&self) -> &[u8] {
        &self.buf[self.start..self.start + self.len]
    }
}

pub fn encode_on(enc: &mut dyn DynEnc, data: &[Vec<u8>]) -> Result<Vec<Vec<u8>>, Error> {
    for (i, d) in data.iter().enumerate() {
        // every third shard is handed over from an odd address
        if i % 3 == 1 {
            enc.add(Shifted::new(d, 1 + i % 63).get())?;
        } else {
            enc.add(d)?;
        }
    }
    let mut out = Vec::new();
    enc.encode_with(&mut |res| out = enc_snapshot(res))?;
    Ok(out)
}

/// One shard handed to a decoder.
#[derive(Clone, Copy, Debug, PartialEq, Eq, Hash, PartialOrd, Ord, Serialize, Deserialize)]
pub struct Given {
    pub rec: bool,
    pub idx: usize,
}

pub fn decode_on(
    dec: &mut dyn DynDec,
    given: &[Given],
    data: &[Vec<u8>],
    recovery: &[Vec<u8>],
) -> Result<BTreeMap<usize, Vec<u8>>, Error> {
    for (n, g) in given.iter().enumerate() {
        let shard: &[u8] = if g.rec { &recovery[g.idx] } else { &data[g.idx] };
        let shifted;
        let shard = if n % 3 == 2 {
            shifted = Shifted::new(shard, 1 + (n * 7) % 63);
            shifted.get()
        } else {
            shard
        };
        if g.rec {
            dec.add_recovery(g.idx, shard)?;
        } else {
            dec.add_original(g.idx, shard)?;
        }
    }
    let mut out = BTreeMap::new();
    dec.decode_with(&mut |res| out = dec_snapshot(res))?;
    Ok(out)
}

pub fn decode_all(
    kind: Kind,
    eng: Eng,
    k: usize,
    r: usize,
    b: usize,
    given: &[Given],
    data: &[Vec<u8>],
    recovery: &[Vec<u8>],
) -> Result<BTreeMap<usize, Vec<u8>>, Error> {
    let mut dec = make_dec(kind, eng, k, r, b, None)?;
    decode_on(&mut *dec, given, data, recovery)
}
