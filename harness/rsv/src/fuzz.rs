//! Glue for the libFuzzer targets (harness/fuzz): bytes are decoded by hand into the same case
//! types the proptest strategies produce, and the same check functions (oracles) are run.
//! (proptest's pass-through RNG cannot be used for this: forking halves the remaining bytes at
//! every flat_map and rand's rejection sampling never terminates once the stream is constant.)

use crate::engines::{pick_engine, Eng, Kind};
use crate::gen::{RecvSpec, SIZES};
use crate::history::{History, Op, RawCfg};
use crate::prims::Xform;
use crate::props::c03::XformCase;
use crate::props::c06::{C6Call, IdxSel, LenSel, ObjCase, OneShot};
use crate::runner::{hash_of, install_panic_hook, is_harness_panic, no_panic, verif_dir, CheckResult, KnownFindings, Stats};
use serde::Serialize;
use serde_json::json;
use std::sync::OnceLock;

pub struct R<'a> {
    d: &'a [u8],
    i: usize,
}

impl<'a> R<'a> {
    pub fn new(d: &'a [u8]) -> R<'a> {
        R { d, i: 0 }
    }
    pub fn u8(&mut self) -> u8 {
        let v = self.d.get(self.i).copied().unwrap_or(0);
        self.i += 1;
        v
    }
    pub fn u16(&mut self) -> u16 {
        self.u8() as u16 | (self.u8() as u16) << 8
    }
    pub fn u64(&mut self) -> u64 {
        let mut v = 0u64;
        for k in 0..8 {
            v |= (self.u8() as u64) << (8 * k);
        }
        v
    }
    pub fn below(&mut self, n: usize) -> usize {
        if n <= 1 {
            0
        } else if n <= 256 {
            self.u8() as usize % n
        } else {
            self.u16() as usize % n
        }
    }
    pub fn bool(&mut self) -> bool {
        self.u8() & 1 != 0
    }
}

const BIG: [usize; 14] = [
    0, 65535, 65536, 65537, 32768, 32769, 61440, 4096, (1 << 32) - 1, 1 << 32, (1 << 32) + 1, usize::MAX - 1, usize::MAX, usize::MAX / 2 + 1,
];

fn kind(r: &mut R) -> Kind {
    [Kind::Rs, Kind::Default, Kind::High, Kind::Low][r.below(4)]
}

fn engine(r: &mut R, k: Kind) -> Eng {
    if k == Kind::Rs {
        Eng::Default
    } else {
        pick_engine(r.u8())
    }
}

fn raw_cfg(r: &mut R) -> RawCfg {
    let (bounded, other) = match r.below(5) {
        0 => (1 + r.below(8), 1 + r.below(8)),
        1 => (1 + r.below(64), 1 + r.below(64)),
        2 => {
            let e = |r: &mut R, maxa: usize| ((1usize << r.below(maxa + 1)) + r.below(3)).saturating_sub(1).max(1);
            (e(r, 7), e(r, 8))
        }
        3 => {
            let m = 1usize << r.below(7);
            let lo = m / 2 + 1;
            let bounded = lo + r.below(m - lo + 1);
            let c = 1 + r.below(6);
            let other = match r.below(4) {
                0 => (c * m).saturating_sub(1),
                1 => c * m,
                2 => c * m + 1,
                _ => c * m + r.below(m),
            }
            .max(1);
            (bounded, other)
        }
        _ => (1 + r.below(500), 1 + r.below(500)),
    };
    let size = if bounded + other > 300 {
        [2usize, 2, 4, 64, 66][r.below(5)]
    } else {
        match r.below(3) {
            0 => SIZES[r.below(SIZES.len())],
            1 => 2 * (1 + r.below(165)),
            _ => 2 * (1 + r.below(40)),
        }
    };
    RawCfg { bounded, other, flip: r.bool(), size }
}

fn recv(r: &mut R) -> RecvSpec {
    RecvSpec { n_mode: r.below(4) as u8, pattern: r.below(10) as u8, order: r.below(5) as u8, seed: r.u64() }
}

fn op(r: &mut R) -> Op {
    match r.below(16) {
        0..=1 => Op::Reset(raw_cfg(r)),
        2 => {
            if r.below(3) == 0 {
                if r.bool() {
                    Op::ResetSame
                } else {
                    Op::ResetBack { n: r.below(3) as u8 }
                }
            } else if r.below(2) == 0 {
                Op::ResetDerived { how: r.below(14) as u8 }
            } else {
                Op::Reset(raw_cfg(r))
            }
        }
        3 => Op::ResetBad { variant: r.below(8) as u8, cfg: raw_cfg(r) },
        4 => {
            if r.bool() {
                Op::ResetRetry { cfg: raw_cfg(r), zero: r.bool() }
            } else {
                Op::ResetBad { variant: r.below(8) as u8, cfg: raw_cfg(r) }
            }
        }
        5 => {
            let k = [Kind::Default, Kind::High, Kind::Low][r.below(3)];
            Op::Recycle { kind: k, eng: pick_engine(r.u8()), cfg: raw_cfg(r), same: r.below(5) < 2 }
        }
        6..=9 => Op::Round { seed: r.u64(), recv: recv(r), read: r.below(8) != 0 },
        10..=11 => Op::Partial { seed: r.u64(), recv: recv(r), n_raw: r.u16() },
        12..=14 => Op::BadAdd { variant: r.below(11) as u8, raw: r.u16(), seed: r.u64() },
        _ => Op::Finish { read: r.bool() },
    }
}

pub fn history(data: &[u8]) -> History {
    let mut r = R::new(data);
    let dec = r.bool();
    let k = kind(&mut r);
    let eng = engine(&mut r, k);
    let init = raw_cfg(&mut r);
    let poison = r.bool();
    let n = 1 + r.below(14);
    let ops = (0..n).map(|_| op(&mut r)).collect();
    History { dec, kind: k, eng, init, poison, ops }
}

fn count(r: &mut R) -> usize {
    match r.below(8) {
        0..=3 => 1 + r.below(12),
        4 => 1 + r.below(200),
        5 => ((1usize << r.below(17)) + r.below(3)).saturating_sub(1),
        6 => BIG[r.below(BIG.len())],
        _ => r.below(70000),
    }
}

fn size(r: &mut R) -> usize {
    match r.below(8) {
        0..=3 => [2usize, 4, 62, 64, 66, 128, 130][r.below(7)],
        4 => 2 * (1 + r.below(200)),
        5..=6 => [0usize, 1, 3, 63, 65, 127][r.below(6)],
        _ => [usize::MAX, usize::MAX - 1, 1 << 40, (1 << 40) + 1, 1 << 63, 100_001][r.below(6)],
    }
}

fn tame(k: Kind, o: usize, rr: usize, b: usize) -> usize {
    if k.env(o, rr) && b != 0 && b % 2 == 0 {
        let positions = o.max(rr).next_power_of_two().max(1) * 2;
        let cap = if positions > 8192 { 64 } else if positions > 512 { 256 } else { 4096 };
        if b > cap {
            return (b % cap) / 2 * 2 + 2;
        }
    }
    b
}

fn len_sel(r: &mut R) -> LenSel {
    match r.below(12) {
        0..=7 => LenSel::Exact,
        8 => LenSel::Plus(1 + r.below(2)),
        9 => LenSel::Minus(1 + r.below(2)),
        _ => LenSel::Abs([0usize, 1, 2, 64, 63, 5000][r.below(6)]),
    }
}

fn idx_sel(r: &mut R) -> IdxSel {
    match r.below(13) {
        0..=7 => IdxSel::Fresh(r.u16()),
        8..=9 => IdxSel::Used(r.u16()),
        10 => IdxSel::AtCount(r.below(3)),
        _ => IdxSel::Abs([65535usize, 65536, 1 << 32, (1 << 32) + 7, usize::MAX - 1, usize::MAX, usize::MAX / 2, usize::MAX - 65536][r.below(8)]),
    }
}

pub fn obj_case(data: &[u8]) -> ObjCase {
    let mut r = R::new(data);
    let dec = r.bool();
    let k = kind(&mut r);
    let eng = engine(&mut r, k);
    let cfg = |r: &mut R| {
        let (o, rr) = if r.below(3) != 0 { (1 + r.below(24), 1 + r.below(24)) } else { (count(r), count(r)) };
        let b = size(r);
        (o, rr, tame(k, o, rr, b))
    };
    let (o, rr, b) = cfg(&mut r);
    let n = 1 + r.below(12);
    let calls = (0..n)
        .map(|_| match r.below(16) {
            0..=1 => {
                let (k, r2, b) = cfg(&mut r);
                C6Call::Reset { k, r: r2, b }
            }
            2..=9 => C6Call::Add { rec: r.bool(), idx: idx_sel(&mut r), len: len_sel(&mut r) },
            10..=12 => C6Call::Fill { n: 1 + r.below(24) as u8, rec_first: r.bool() },
            _ => C6Call::Finish,
        })
        .collect();
    ObjCase { dec, kind: k, eng, k: o, r: rr, b, calls }
}

pub fn oneshot(data: &[u8]) -> OneShot {
    let mut r = R::new(data);
    let small = |r: &mut R| if r.below(15) != 0 { 1 + r.below(12) } else { count(r) };
    let is_enc = r.below(7) < 2;
    let k = small(&mut r);
    let rr = small(&mut r);
    let b = tame(Kind::Rs, k, rr, size(&mut r)).min(4096);
    if is_enc {
        let kk = k.min(40);
        let n = match r.below(4) {
            0 | 1 => kk,
            2 => kk.saturating_sub(1 + r.below(2)),
            _ => kk + 1 + r.below(2),
        };
        let mut lens = vec![LenSel::Exact; n];
        for _ in 0..r.below(4) {
            if !lens.is_empty() {
                let at = r.below(lens.len());
                lens[at] = len_sel(&mut r);
            }
        }
        return OneShot::Encode { k, r: rr, b, lens };
    }
    let kk = k.min(40);
    let rk = rr.min(40);
    let shape = r.below(5);
    let n_o = match shape {
        0 => kk,
        1 => kk.saturating_sub(rk),
        _ => r.below(kk + 1),
    };
    let need = kk - n_o.min(kk);
    let n_r = match shape {
        0 => {
            if r.bool() {
                0
            } else {
                r.below(rk + 1)
            }
        }
        _ => (need + r.below(2)).min(rk),
    };
    let base_o = r.u16() as usize;
    let base_r = r.u16() as usize;
    let mut originals: Vec<(IdxSel, LenSel)> = (0..n_o).map(|j| (IdxSel::Fresh((base_o + j * 9973) as u16), LenSel::Exact)).collect();
    let mut recovery: Vec<(IdxSel, LenSel)> = (0..n_r).map(|j| (IdxSel::Fresh((base_r + j * 7919) as u16), LenSel::Exact)).collect();
    for _ in 0..r.below(3) {
        let on_rec = r.bool();
        let fk = r.below(8);
        let raw = r.u16() as usize;
        let isel = idx_sel(&mut r);
        let lsel = len_sel(&mut r);
        let list = if on_rec { &mut recovery } else { &mut originals };
        match fk {
            0 | 1 => {
                if !list.is_empty() {
                    let at = raw % list.len();
                    list[at].0 = isel;
                }
            }
            2 | 3 => {
                if !list.is_empty() {
                    let at = raw % list.len();
                    list[at].1 = lsel;
                }
            }
            4 => {
                if !list.is_empty() {
                    let at = raw % list.len();
                    list.remove(at);
                }
            }
            5 => {
                let keep = list.len() - raw % (list.len() + 1);
                list.truncate(keep);
            }
            6 => list.push((isel, lsel)),
            _ => recovery.clear(),
        }
    }
    OneShot::Decode { k, r: rr, b, originals, recovery }
}

pub fn xform_case(data: &[u8]) -> XformCase {
    let mut r = R::new(data);
    let which = if r.bool() { Xform::Fft } else { Xform::Ifft };
    let size_log = if r.below(4) != 0 { r.below(8) as u8 } else { 8 + r.below(3) as u8 };
    let size = 1usize << size_log;
    let pos_raw = match r.below(7) {
        0..=2 => 0,
        3..=5 => 1 + r.below(9),
        _ => 10 + r.below(61),
    };
    let after = r.below(4);
    let blocks = [1usize, 1, 1, 1, 1, 2, 2, 3][r.below(8)];
    let traw = r.u16();
    let trunc = match r.below(6) {
        0 => 0,
        1 => 1.min(size),
        2 => size,
        3 => {
            let p = 1usize << (traw as usize % (size_log as usize + 1));
            (if traw & 0x8000 != 0 { p + 1 } else { p.saturating_sub(1) }).min(size)
        }
        _ => crate::gen::idx_map(traw, size),
    };
    let ssel = r.below(6);
    let sraw = r.u16();
    let pos = if ssel == 1 { pos_raw / 4 * size.min(64) } else { pos_raw };
    let max_delta = 65536 - size;
    let skew_delta = match ssel {
        0 => 0,
        1 => (pos + size).min(max_delta) / size * size,
        2 => max_delta,
        3 => crate::gen::idx_map(sraw, max_delta / size) * size,
        5 => {
            let a = 2 + (sraw as u32 % 15);
            let b = (sraw as u32 >> 8) % (a - 1);
            ((1usize << a) - 3 * (1usize << b)).min(max_delta)
        }
        _ => crate::gen::idx_map(sraw, max_delta),
    };
    XformCase { which, size_log, pos, after, blocks, trunc, skew_delta, zero_tail: r.bool(), seed: r.u64() }
}

// ----------------------------------------------------------------------

static KNOWN: OnceLock<KnownFindings> = OnceLock::new();

fn init() -> &'static KnownFindings {
    KNOWN.get_or_init(|| {
        install_panic_hook();
        if let Err(e) = crate::refmodel::selftest() {
            panic!("reference model self-test failed: {e}");
        }
        KnownFindings::load()
    })
}

/// Runs one decoded case through a check; on a violation writes the replay file and aborts
/// (libFuzzer then keeps the crashing input).
pub fn run_case<C: Serialize>(id: &str, part: &str, case: &C, check: fn(&C, &mut Stats) -> CheckResult) {
    let known = init();
    let mut st = Stats::default();
    let msg = match no_panic(|| check(case, &mut st)) {
        Ok(Ok(())) => return,
        Ok(Err(f)) => {
            if let Some(sig) = &f.sig {
                if known.matches(id, sig) {
                    return;
                }
            }
            f.msg
        }
        Err(p) => p,
    };
    if is_harness_panic(&msg) {
        eprintln!("harness problem (not a violation): {msg}");
        return;
    }
    let body = json!({"property": id, "part": part, "case": case, "message": msg, "found_by": "libFuzzer"});
    let h = hash_of(&serde_json::to_string(&body["case"]).unwrap());
    let dir = format!("{}/replays", verif_dir());
    let _ = std::fs::create_dir_all(&dir);
    let path = format!("{dir}/{id}-fuzz-{h:016x}.json");
    let _ = std::fs::write(&path, serde_json::to_string_pretty(&body).unwrap());
    eprintln!("VIOLATION property={id} replay={path}\n  part={part} message={msg}");
    std::process::abort();
}

/// (property, part, case as JSON) of a raw fuzz input, for turning libFuzzer artifacts into replay files
pub fn decode_to_json(name: &str, data: &[u8]) -> Option<(&'static str, &'static str, serde_json::Value)> {
    Some(match name {
        "hist_c05" => ("C05", "history", serde_json::to_value(history(data)).ok()?),
        "hist_c07" => ("C07", "twin", serde_json::to_value(history(data)).ok()?),
        "obj_c06" => ("C06", "object", serde_json::to_value(obj_case(data)).ok()?),
        "oneshot_c10" => ("C10", "oneshot_vs_streaming", serde_json::to_value(oneshot(data)).ok()?),
        "prims_c03" => ("C03", "xform", serde_json::to_value(xform_case(data)).ok()?),
        _ => return None,
    })
}

/// fuzz targets that deepen a property in the thorough tier: (target, runs per instance)
pub fn targets_for(id: &str) -> Vec<(&'static str, u64)> {
    match id {
        "C03" => vec![("prims_c03", 120_000)],
        "C05" => vec![("hist_c05", 20_000)],
        "C06" => vec![("obj_c06", 250_000)],
        "C07" => vec![("hist_c07", 20_000)],
        "C10" => vec![("oneshot_c10", 20_000)],
        _ => vec![],
    }
}

/// Builds (cargo-fuzz, nightly, ASan) and runs a libFuzzer campaign; results go into the run.
pub fn campaign(run: &mut crate::runner::Run, target: &str, runs: u64) {
    use std::process::Command;
    if run.failed() {
        return;
    }
    let t0 = std::time::Instant::now();
    let exe = match std::env::current_exe() {
        Ok(e) => e,
        Err(_) => return,
    };
    // <harness>/target/release/rsv
    let Some(harness) = exe.parent().and_then(|p| p.parent()).and_then(|p| p.parent()) else { return };
    let fuzz_dir = harness.join("fuzz");
    let key = format!("fuzz_{target}");
    let build = Command::new("cargo")
        .args(["+nightly", "fuzz", "build", "--fuzz-dir"])
        .arg(&fuzz_dir)
        .arg(target)
        .env("CARGO_NET_OFFLINE", "true")
        .current_dir(harness)
        .output();
    let bin = fuzz_dir.join("target/x86_64-unknown-linux-gnu/release").join(target);
    match build {
        Ok(o) if o.status.success() && bin.exists() => {}
        Ok(o) => {
            let err = String::from_utf8_lossy(&o.stderr);
            let tail: String = err.chars().rev().take(300).collect::<String>().chars().rev().collect();
            run.extra.insert(key, json!({"status": "unavailable: cargo fuzz build failed", "stderr_tail": tail}));
            return;
        }
        Err(e) => {
            run.extra.insert(key, json!({"status": format!("unavailable: {e}")}));
            return;
        }
    }
    let instances = (run.threads / 2).clamp(1, 8);
    let runs = ((runs as f64 * run.scale).ceil() as u64).max(100);
    let base = harness.join("target").join("fuzz-run").join(format!("{target}-{}", run.seed));
    let _ = std::fs::remove_dir_all(&base);
    let mut children = Vec::new();
    for inst in 0..instances {
        let dir = base.join(format!("i{inst}"));
        let corpus = dir.join("corpus");
        let _ = std::fs::create_dir_all(&corpus);
        // seed corpus: pseudo-random inputs (every input decodes to a valid case)
        let mut rng = crate::gen::Xs::new(run.seed ^ hash_of(&(target, inst)));
        for f in 0..48 {
            let mut b = vec![0u8; 256 + rng.below(1800)];
            rng.fill(&mut b);
            let _ = std::fs::write(corpus.join(format!("seed{f}")), b);
        }
        let seed = ((run.seed ^ hash_of(&(target, inst))) as u32).max(1);
        let child = Command::new(&bin)
            .arg(&corpus)
            .arg(format!("-runs={runs}"))
            .arg(format!("-seed={seed}"))
            // no RSS limit: libFuzzer reads the PEAK rss (getrusage), and a process started with posix_spawn inherits the
            // peak of its parent - after the big-memory parts of this check every instance would "exceed" any limit at
            // once (seen: 8 x "out-of-memory (used: 12503Mb)" on a machine with 62 GB). Single allocations stay limited.
            .args(["-len_control=0", "-max_len=2048", "-timeout=120", "-print_final_stats=1", "-rss_limit_mb=0", "-malloc_limit_mb=8192"])
            .arg(format!("-artifact_prefix={}/", dir.display()))
            .env("RSV_VERIF_DIR", verif_dir())
            .env("ASAN_OPTIONS", "quarantine_size_mb=32:malloc_context_size=2:detect_leaks=0")
            .stdout(std::process::Stdio::null())
            .stderr(std::process::Stdio::piped())
            .spawn();
        if let Ok(c) = child {
            children.push((inst, dir, c));
        }
    }
    let mut execs = 0u64;
    let mut notes = Vec::new();
    for (inst, dir, c) in children {
        let Ok(out) = c.wait_with_output() else { continue };
        let err = String::from_utf8_lossy(&out.stderr).to_string();
        for l in err.lines() {
            if let Some(v) = l.strip_prefix("stat::number_of_executed_units:") {
                execs += v.trim().parse::<u64>().unwrap_or(0);
            }
        }
        if out.status.success() {
            continue;
        }
        // a violation found by the in-target oracle has already written its replay file
        if let Some(l) = err.lines().find(|l| l.starts_with("VIOLATION property=")) {
            let path = l.split("replay=").nth(1).unwrap_or("").trim().to_string();
            let msg = err.lines().find(|l| l.trim_start().starts_with("part=")).unwrap_or("").trim().to_string();
            run.failures.push(crate::runner::Failure { part: format!("libFuzzer:{target}"), case: serde_json::Value::Null, message: msg, replay_path: Some(path) });
            continue;
        }
        if err.contains("libFuzzer: timeout") || err.contains("libFuzzer: out-of-memory") {
            let why = err.lines().find(|l| l.contains("ERROR: libFuzzer")).unwrap_or("").trim().to_string();
            notes.push(format!("instance {inst}: libFuzzer timeout/oom (inconclusive): {why}"));
            run.inconclusive.push(format!("libFuzzer:{target}: instance {inst} hit the per-input time or memory limit"));
            continue;
        }
        // sanitizer report or abort outside the oracle: the artifact is the reproducer
        let artifact = std::fs::read_dir(&dir).ok().and_then(|rd| rd.filter_map(|e| e.ok()).map(|e| e.path()).find(|p| p.file_name().map(|n| n.to_string_lossy().starts_with("crash-")).unwrap_or(false)));
        let summary = err.lines().find(|l| l.contains("ERROR: AddressSanitizer") || l.contains("SUMMARY:")).unwrap_or("crash").to_string();
        if let Some(a) = artifact {
            if let Ok(bytes) = std::fs::read(&a) {
                if let Some((_, part, case)) = decode_to_json(target, &bytes) {
                    run.record_failure(part, case, format!("libFuzzer/ASan: {summary}"));
                    continue;
                }
            }
        }
        run.inconclusive.push(format!("libFuzzer:{target}: instance {inst} exited abnormally without artifact: {summary}"));
    }
    run.stats.evaluations += execs;
    *run.stats.counters.entry(format!("libFuzzer/{target}/executions")).or_insert(0) += execs;
    run.extra.insert(
        key,
        json!({"status": "ran", "instances": instances, "runs_per_instance": runs, "executions": execs, "sanitizer": "address", "wall_s": t0.elapsed().as_secs_f64(), "notes": notes}),
    );
    let _ = std::fs::remove_dir_all(&base);
}

pub fn target(name: &str, data: &[u8]) {
    if data.len() < 4 {
        return;
    }
    match name {
        "hist_c05" => run_case("C05", "history", &history(data), crate::props::c05::check),
        "hist_c07" => run_case("C07", "twin", &history(data), crate::props::c07::check),
        "obj_c06" => run_case("C06", "object", &obj_case(data), crate::props::c06::check_obj),
        "oneshot_c10" => run_case("C10", "oneshot_vs_streaming", &oneshot(data), crate::props::c10::check),
        "prims_c03" => run_case("C03", "xform", &xform_case(data), crate::props::c03::check_xform),
        _ => panic!("unknown fuzz target {name}"),
    }
}
