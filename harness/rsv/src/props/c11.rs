//! C11 - decoding is independent of arrival order and of surplus shards.

use crate::engines::*;
use crate::gen::{self, Cfg, DataSpec, RecvSpec, Xs};
use crate::props::PropDef;
use crate::runner::{CheckResult, GenPart, PartDyn, Stats, Tier};
use crate::{ensure, fail};
use proptest::prelude::*;
use serde::{Deserialize, Serialize};
use std::collections::BTreeMap;

pub fn def() -> PropDef {
    PropDef {
        id: "C11",
        rule: "generated: one encoded instance (family x engine x configuration class x size x data), a sufficient received set S (8 loss-pattern families), two independent arrival orders of S, a superset S' of S up to all k+r shards, and the all-originals case accompanied by random recovery shards. part corner_supersets: the same on every staircase corner of the envelope and its neighbours (k + r == 65536 exactly), two thirds of the cases with the superset of ALL k + r shards and all originals plus ALL recovery shards. part many_long_supersets: 1..600 + 1100..3000 shards of 2..6 KiB with supersets mostly up to all shards. oracle (metamorphic): restored(S, order1) == restored(S, order2); restored(S') == restored(S) restricted to the originals missing from S'; no given original is reported; all originals given => empty iterator. Each restored shard also equals the encoded original. non-trivial: the two orders differ and interleave originals with recovery, or |S'| > k; distinct by full case",
        assumptions: &[],
        parts,
    }
}

#[derive(Clone, Debug, PartialEq, Eq, Hash, Serialize, Deserialize)]
pub struct OrderCase {
    pub kind: Kind,
    pub eng: Eng,
    pub cfg: Cfg,
    pub data: DataSpec,
    pub recv: RecvSpec,
    pub order2: u8,
    pub seed2: u64,
    /// how many of the withheld shards are added for the superset run (raw, mapped monotonically)
    pub surplus_raw: u16,
    pub companions_raw: u16,
}

fn strategy(t: Tier) -> BoxedStrategy<OrderCase> {
    gen::kind_any()
        .prop_flat_map(move |kind| {
            (gen::cfg(kind, t.pick(1000, 2000)), gen::engine_for(kind), gen::data_spec(), gen::recv_spec(), 0u8..5, any::<u64>(), any::<u16>(), any::<u16>()).prop_map(
                move |((cfg, _), eng, data, recv, order2, seed2, surplus_raw, companions_raw)| OrderCase { kind, eng, cfg, data, recv, order2, seed2, surplus_raw, companions_raw },
            )
        })
        .boxed()
}

/// the staircase corners of the envelope (k + r == 65536 exactly, and their neighbours inside): sufficient set,
/// supersets up to ALL k + r shards, all originals plus any / all recovery shards
fn corner_strategy(_t: Tier) -> BoxedStrategy<OrderCase> {
    gen::kind_any()
        .prop_flat_map(move |kind| {
            let corners = gen::envelope_corners(kind);
            let full = || prop_oneof![2 => Just(0xFFFFu16), 1 => any::<u16>()];
            (0..corners.len(), any::<u8>(), gen::recv_spec(), 0u8..5, any::<u64>(), full(), full()).prop_map(move |(ci, eraw, recv, order2, seed2, surplus_raw, companions_raw)| {
                let fast: Vec<Eng> = [Eng::NoSimd, Eng::Ssse3, Eng::Avx2, Eng::Default].iter().copied().filter(|e| e.available()).collect();
                let eng = if kind == Kind::Rs { Eng::Default } else { fast[(eraw as usize * fast.len()) >> 8] };
                OrderCase { kind, eng, cfg: Cfg { k: corners[ci].0, r: corners[ci].1, b: 2 }, data: DataSpec { mode: 0, seed: seed2 }, recv, order2, seed2, surplus_raw, companions_raw }
            })
        })
        .boxed()
}

/// many AND long AND a large surplus: one side 1..600 shards, the other 1100..3000, shards of 2..6 KiB (at most
/// 16 MiB of shard data), supersets mostly up to all shards (thresholds such as ">= 1024 surplus shards of >= 4 KiB")
fn many_long_strategy(_t: Tier) -> BoxedStrategy<OrderCase> {
    gen::kind_any()
        .prop_flat_map(move |kind| {
            let full = || prop_oneof![2 => Just(0xFFFFu16), 1 => any::<u16>()];
            (1usize..=600, 1100usize..=3000, any::<bool>(), 1024usize..=3200, any::<u8>(), gen::recv_spec(), 0u8..5, any::<u64>(), full(), full()).prop_map(
                move |(few, many, flip, h, eraw, recv, order2, seed2, surplus_raw, companions_raw)| {
                    let (k, r) = match kind {
                        Kind::High => (many, few),
                        Kind::Low => (few, many),
                        _ => if flip { (many, few) } else { (few, many) },
                    };
                    let fast: Vec<Eng> = [Eng::NoSimd, Eng::Ssse3, Eng::Avx2, Eng::Default].iter().copied().filter(|e| e.available()).collect();
                    let eng = if kind == Kind::Rs { Eng::Default } else { fast[(eraw as usize * fast.len()) >> 8] };
                    let b = (h * 2).min((16usize << 20) / (k + r) / 2 * 2);
                    OrderCase { kind, eng, cfg: Cfg { k, r, b }, data: DataSpec { mode: 0, seed: seed2 }, recv, order2, seed2, surplus_raw, companions_raw }
                },
            )
        })
        .boxed()
}

fn parts() -> Vec<Box<dyn PartDyn>> {
    vec![
        Box::new(GenPart { name: "order_surplus", quick: 25_000, thorough: 400_000, shrink_iters: 600, strat: strategy, check }),
        Box::new(GenPart { name: "corner_supersets", quick: 96, thorough: 3_000, shrink_iters: 12, strat: corner_strategy, check: check_corner }),
        Box::new(GenPart { name: "many_long_supersets", quick: 48, thorough: 1_500, shrink_iters: 12, strat: many_long_strategy, check: |c, st| check_part(c, st, "many_long_supersets") }),
    ]
}

fn check_corner(c: &OrderCase, st: &mut Stats) -> CheckResult {
    check_part(c, st, "corner_supersets")
}

fn interleaved(v: &[Given]) -> bool {
    // some original arrives after some recovery shard and vice versa
    let first_rec = v.iter().position(|g| g.rec);
    let first_orig = v.iter().position(|g| !g.rec);
    let last_rec = v.iter().rposition(|g| g.rec);
    let last_orig = v.iter().rposition(|g| !g.rec);
    match (first_rec, first_orig, last_rec, last_orig) {
        (Some(fr), Some(fo), Some(lr), Some(lo)) => fr < lo && fo < lr,
        _ => false,
    }
}

fn check(c: &OrderCase, st: &mut Stats) -> CheckResult {
    check_part(c, st, "order_surplus")
}

fn check_part(c: &OrderCase, st: &mut Stats, part: &str) -> CheckResult {
    let Cfg { k, r, b } = c.cfg;
    let data = c.data.expand(k, b);
    let rec = encode_all(c.kind, c.eng, k, r, b, &data).map_err(|e| format!("encode failed: {e:?}"))?;
    let dec = |given: &[Given]| -> Result<BTreeMap<usize, Vec<u8>>, String> {
        decode_all(c.kind, c.eng, k, r, b, given, &data, &rec).map_err(|e| format!("decode of {} shards failed: {e:?}", given.len()))
    };
    let s1 = c.recv.arrival(k, r);
    let mut s2 = c.recv.given_set(k, r);
    gen::order_apply(&mut s2, c.order2, c.seed2);
    let res1 = dec(&s1)?;
    let res2 = dec(&s2)?;
    if res1 != res2 {
        fail!("the same {} shards added in two different orders restore different originals (k={k} r={r} b={b} {} {})", s1.len(), c.kind.name(), c.eng.name());
    }
    crate::props::c01::check_restored(k, b, &s1, &data, &res1)?;

    // superset
    let mut have_o = vec![false; k];
    let mut have_r = vec![false; r];
    for g in &s1 {
        if g.rec { have_r[g.idx] = true } else { have_o[g.idx] = true }
    }
    let mut withheld: Vec<Given> = (0..k).filter(|&i| !have_o[i]).map(|i| Given { rec: false, idx: i }).chain((0..r).filter(|&i| !have_r[i]).map(|i| Given { rec: true, idx: i })).collect();
    let mut rng = Xs::new(c.seed2 ^ 0x50B);
    rng.shuffle(&mut withheld);
    // surplus: a random number of withheld shards, or (a quarter of the cases) only isolated outliers:
    // the highest-index withheld recovery shard and/or the lowest-index withheld shard
    let extra = if c.surplus_raw % 4 == 0 && !withheld.is_empty() {
        let hi = withheld.iter().enumerate().filter(|(_, g)| g.rec).max_by_key(|(_, g)| g.idx).map(|(i, _)| i);
        let lo = withheld.iter().enumerate().min_by_key(|(_, g)| (g.rec, g.idx)).map(|(i, _)| i);
        let mut front = 0;
        if let Some(i) = hi {
            withheld.swap(front, i);
            front += 1;
        }
        if c.surplus_raw % 8 == 0 {
            if let Some(i) = lo {
                if i >= front {
                    withheld.swap(front, i);
                    front += 1;
                }
            }
        }
        front
    } else {
        gen::idx_map(c.surplus_raw, withheld.len())
    };
    let mut sup: Vec<Given> = s1.clone();
    sup.extend_from_slice(&withheld[..extra]);
    gen::order_apply(&mut sup, c.order2, c.seed2 ^ 1);
    let res_sup = dec(&sup)?;
    let mut sup_has_o = have_o.clone();
    for g in &withheld[..extra] {
        if !g.rec { sup_has_o[g.idx] = true }
    }
    let expect: BTreeMap<usize, Vec<u8>> = res1.iter().filter(|(i, _)| !sup_has_o[**i]).map(|(i, s)| (*i, s.clone())).collect();
    if res_sup != expect {
        fail!(
            "a superset of {} shards (the sufficient {} plus {extra} more) restores {:?}, expected exactly the still-missing originals {:?} with the same bytes",
            sup.len(), s1.len(), res_sup.keys().take(10).collect::<Vec<_>>(), expect.keys().take(10).collect::<Vec<_>>()
        );
    }

    // all originals given, with arbitrary recovery companions: nothing is restored
    let ncomp = gen::idx_map(c.companions_raw, r);
    let mut comp: Vec<usize> = (0..r).collect();
    rng.shuffle(&mut comp);
    let mut all: Vec<Given> = (0..k).map(|i| Given { rec: false, idx: i }).chain(comp[..ncomp].iter().map(|&i| Given { rec: true, idx: i })).collect();
    gen::order_apply(&mut all, c.order2, c.seed2 ^ 2);
    let res_all = dec(&all)?;
    ensure!(res_all.is_empty(), "all originals were given (plus {ncomp} recovery shards) but {} originals are reported as restored", res_all.len());

    st.classf("kind", c.kind.name());
    st.classf("engine", c.eng.name());
    st.classf("surplus", if extra == 0 { "0" } else if sup.len() == k + r { "all" } else { "some" });
    let nt = (s1 != s2 && (interleaved(&s1) || interleaved(&s2))) || sup.len() > k;
    st.classf("interleaved", interleaved(&s1) || interleaved(&s2));
    st.classf("all_k_plus_r_shards_on_exact_corner", k + r == 65536 && (sup.len() == k + r || all.len() == k + r));
    if nt {
        st.nontrivial_case(part, c);
    }
    Ok(())
}
