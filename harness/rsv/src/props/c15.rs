//! C15 - engine primitives and tables implement their mathematical contracts.

use crate::engines::*;
use crate::gen::{self, Xs};
use crate::prims::{self, Buf, Xform};
use crate::props::c03::{evalpoly_input, evalpoly_strategy, evalpoly_trunc, EvalPolyCase};
use crate::props::PropDef;
use crate::refmodel::{self, eq_mod, field, MODULUS};
use crate::runner::{no_panic, CheckResult, GenPart, PartDyn, Run, Stats, Tier};
use crate::{ensure, fail};
use proptest::prelude::*;
use reed_solomon_simd::engine::tables;
use serde::{Deserialize, Serialize};
use serde_json::{json, Value};
use std::sync::atomic::{AtomicU64, Ordering};
use std::sync::Mutex;
use std::time::Instant;

pub fn def() -> PropDef {
    PropDef {
        id: "C15",
        rule: "all expected values come from the independent field arithmetic (refmodel). tables (exhaustive): exp[i] = g^i, exp[65535] = 1, log[x] for x >= 1, all 65535 skew entries = log of the normalised subspace polynomial s^_t(w) with the 16 sentinels, all 4M nibble products of Mul16 and of Mul128, LogWalsh[y] = sum_x (-1)^{|x&y|} log x mod 65535 for all y (own exact Walsh transform; the naive signed sum on 512 sampled y in quick and on all y in thorough). mul: per engine every log_m x (quick 2048 symbols incl. 0/1/0xFFFF/single-bit; thorough all 65536 symbols = all 2^32 pairs) against symbol*g^log_m. fft: random LCH-basis coefficients, outputs at pos..pos+truncated_size must be the polynomial's values at the points skew_delta+i (all outputs for sizes <= 1024; for sizes up to 65536 a sample of outputs containing the borders of the truncated range and of every eighth; chunk-aligned skew offsets up to the table end, sampled slots; a third of the transforms and half of the mul rows on buffers at non-aligned addresses); ifft: inputs zero beyond truncated_size, the output coefficients evaluated by the reference must reproduce all size inputs. eval_poly: 0/1 vectors, every output (sparse marks) or 96 sampled outputs (dense marks) = sum over marked j != x of log(x^j) mod 65535 with 0 = 65535, bit-identical for two covering truncated sizes. non-trivial: log_m not in {0,65535} and symbol != 0; truncated < size; >= 2 marks",
        assumptions: &["log(0) has no definition and is not asserted", "modular quantities are compared modulo 65535 with 0 and 65535 identified"],
        parts,
    }
}

fn parts() -> Vec<Box<dyn PartDyn>> {
    vec![
        Box::new(Tables),
        Box::new(MulAll),
        Box::new(GenPart { name: "transform", quick: 30_000, thorough: 90_000, shrink_iters: 400, strat: xf_strategy, check: check_xf }),
        Box::new(GenPart { name: "eval_poly", quick: 1_500, thorough: 9_000, shrink_iters: 60, strat: ep_strategy, check: check_ep }),
    ]
}

// ----------------------------------------------------------------------
// tables (exhaustive)

struct Tables;

fn skew_expected(j: usize) -> u16 {
    let f = field();
    let t = (j + 1).trailing_zeros() as usize;
    let w = (j + 1) - (1usize << t);
    let v = f.s_hat(t, w as u16);
    if v == 0 {
        65535
    } else {
        f.log[v as usize] as u16
    }
}

fn walsh_expected(y: usize) -> u32 {
    let f = field();
    // sum_x (-1)^{popcount(x & y)} log x  (mod 65535), x >= 1
    let mut pos: u64 = 0;
    let mut neg: u64 = 0;
    for x in 1..65536usize {
        let l = f.log[x] as u64;
        if (x & y).count_ones() & 1 == 0 {
            pos += l;
        } else {
            neg += l;
        }
    }
    let m = MODULUS as u64;
    ((pos % m + m - neg % m) % m) as u32
}

/// the whole Walsh table of the log function by an own in-place Walsh-Hadamard transform in exact
/// integer arithmetic modulo 65535 (independent of the crate's fwht; cross-checked against the naive
/// signed sum on sampled entries in every run)
fn walsh_fast() -> &'static Vec<u32> {
    static W: std::sync::OnceLock<Vec<u32>> = std::sync::OnceLock::new();
    W.get_or_init(|| {
        let f = field();
        let m = MODULUS as i64;
        let mut a: Vec<i64> = (0..65536usize).map(|x| if x == 0 { 0 } else { f.log[x] as i64 }).collect();
        let mut len = 1;
        while len < 65536 {
            let mut i = 0;
            while i < 65536 {
                for j in i..i + len {
                    let (u, v) = (a[j], a[j + len]);
                    a[j] = (u + v) % m;
                    a[j + len] = (u - v).rem_euclid(m);
                }
                i += 2 * len;
            }
            len *= 2;
        }
        a.into_iter().map(|v| v as u32).collect()
    })
}

fn table_entry_check(which: &str, i: usize) -> Result<(), String> {
    let f = field();
    match which {
        "exp" => {
            let got = tables::EXP_LOG.exp[i];
            let want = if i == 65535 { 1 } else { f.exp[i] };
            if got != want {
                return Err(format!("EXP_LOG.exp[{i}] = {got:#06x}, definition gives {want:#06x}"));
            }
        }
        "log" => {
            if i >= 1 {
                let got = tables::EXP_LOG.log[i] as u32;
                if got != f.log[i] {
                    return Err(format!("EXP_LOG.log[{i:#06x}] = {got}, definition gives {}", f.log[i]));
                }
            }
        }
        "skew" => {
            let got = tables::SKEW[i];
            let want = skew_expected(i);
            if got != want {
                return Err(format!("SKEW[{i}] = {got}, definition (log of the normalised subspace polynomial; 65535 where it vanishes) gives {want}"));
            }
        }
        "mul16" => {
            // i = log_m * 64 + n * 16 + x
            let (log_m, n, x) = (i >> 6, (i >> 4) & 3, i & 15);
            let got = tables::MUL16[log_m][n][x];
            let want = f.mul_exp((x << (4 * n)) as u16, log_m as u32);
            if got != want {
                return Err(format!("MUL16[{log_m}][{n}][{x}] = {got:#06x}, product gives {want:#06x}"));
            }
        }
        "mul128" => {
            let (log_m, n, x) = (i >> 6, (i >> 4) & 3, i & 15);
            let e = &tables::MUL128[log_m];
            let lo = e.lo[n].to_le_bytes()[x];
            let hi = e.hi[n].to_le_bytes()[x];
            let got = lo as u16 | (hi as u16) << 8;
            let want = f.mul_exp((x << (4 * n)) as u16, log_m as u32);
            if got != want {
                return Err(format!("MUL128[{log_m}] nibble {n} entry {x} = {got:#06x}, product gives {want:#06x}"));
            }
        }
        "log_walsh" => {
            let got = tables::LOG_WALSH[i] as u32;
            let want = walsh_fast()[i];
            if !eq_mod(got, want) {
                return Err(format!("LOG_WALSH[{i}] = {got}, Walsh transform of the log table gives {want} (mod 65535)"));
            }
        }
        "log_walsh_naive" => {
            let got = tables::LOG_WALSH[i] as u32;
            let want = walsh_expected(i);
            if !eq_mod(walsh_fast()[i], want) {
                return Err(format!("harness: own fast Walsh transform disagrees with the naive signed sum at {i}"));
            }
            if !eq_mod(got, want) {
                return Err(format!("LOG_WALSH[{i}] = {got}, signed log sum gives {want} (mod 65535)"));
            }
        }
        _ => return Err(format!("harness: unknown table {which}")),
    }
    Ok(())
}

impl PartDyn for Tables {
    fn name(&self) -> &'static str {
        "tables"
    }
    fn run(&self, run: &mut Run) {
        if run.failed() {
            return;
        }
        let t0 = Instant::now();
        let mut stats = Stats::default();
        let walsh_all = run.tier == Tier::Thorough;
        let mut rng = Xs::new(run.seed ^ 0x7AB1E);
        let walsh_ys: Vec<usize> = if walsh_all {
            (0..65536).collect()
        } else {
            let mut v = vec![0usize, 1, 2, 3, 0x8000, 0xFFFF, 0x5555, 0xAAAA];
            while v.len() < 512 {
                v.push(rng.below(65536));
            }
            v
        };
        let jobs: Vec<(&'static str, Vec<usize>)> = vec![
            ("exp", (0..65536).collect()),
            ("log", (0..65536).collect()),
            ("skew", (0..65535).collect()),
            ("mul16", (0..65536 * 64).collect()),
            ("mul128", (0..65536 * 64).collect()),
            ("log_walsh", (0..65536).collect()),
            ("log_walsh_naive", walsh_ys),
        ];
        let failure: Mutex<Option<(String, usize, String)>> = Mutex::new(None);
        let evals = AtomicU64::new(0);
        for (which, idx) in &jobs {
            let chunk = idx.len().div_ceil(run.threads.max(1) * 8).max(1);
            let next = AtomicU64::new(0);
            let res = no_panic(|| {
                std::thread::scope(|sc| {
                    for _ in 0..run.threads.max(1) {
                        sc.spawn(|| loop {
                            let c = next.fetch_add(1, Ordering::Relaxed) as usize;
                            let lo = c * chunk;
                            if lo >= idx.len() || failure.lock().unwrap().is_some() {
                                break;
                            }
                            let hi = (lo + chunk).min(idx.len());
                            for &i in &idx[lo..hi] {
                                if let Err(m) = table_entry_check(which, i) {
                                    let mut f = failure.lock().unwrap();
                                    if f.is_none() {
                                        *f = Some((which.to_string(), i, m));
                                    }
                                    return;
                                }
                            }
                            evals.fetch_add((hi - lo) as u64, Ordering::Relaxed);
                        });
                    }
                })
            });
            if let Err(p) = res {
                run.record_failure(self.name(), json!({"table": which}), format!("table {which}: {p}"));
                return;
            }
            stats.classes.insert(format!("entries_{which}"), idx.len() as u64);
            // every entry checked is a distinct non-trivial obligation
            for &i in idx.iter().take(4096) {
                stats.nontrivial_key(crate::runner::hash_of(&(which, i)));
            }
        }
        stats.evaluations = evals.load(Ordering::Relaxed);
        stats.samples.push(json!({"table": "skew", "index": 12345, "expected": skew_expected(12345)}));
        stats.samples.push(json!({"table": "mul16", "log_m": 777, "nibble": 2, "x": 9, "expected": field().mul_exp(9 << 8, 777)}));
        let f = failure.lock().unwrap().take();
        let note = if walsh_all { "all entries of exp, log, skew, Mul16, Mul128, LogWalsh (LogWalsh both by own fast transform and by the naive signed sum)" } else { "all entries of exp, log, skew, Mul16, Mul128, LogWalsh (LogWalsh by own fast Walsh transform, 512 entries also by the naive signed sum)" };
        run.record_part(self.name(), stats, f.is_none(), note, t0);
        if let Some((which, i, m)) = f {
            run.record_failure(self.name(), json!({"table": which, "index": i}), m);
        }
    }
    fn replay(&self, case: &Value) -> Result<(), String> {
        let which = case["table"].as_str().ok_or("no table")?;
        let i = case["index"].as_u64().ok_or("no index")? as usize;
        no_panic(|| table_entry_check(which, i))?
    }
}

// ----------------------------------------------------------------------
// mul: every log_m, per engine (thorough: all 2^32 pairs)

struct MulAll;

fn mul_check(eng: Eng, log_m: u16, syms: &[u16]) -> Result<(), String> {
    let f = field();
    let blocks = syms.len().div_ceil(32);
    let mut buf = Buf::zeroed(1, blocks, 0);
    for (i, &s) in syms.iter().enumerate() {
        buf.set_sym(0, i, s);
    }
    prims::mul_at(eng, &mut buf.data[..], if log_m % 2 == 1 { 1 + log_m as usize % 63 } else { 0 }, log_m);
    for (i, &s) in syms.iter().enumerate() {
        let got = buf.sym(0, i);
        let want = f.mul_exp(s, log_m as u32);
        if got != want {
            return Err(format!("{}::mul(symbol {s:#06x}, log_m {log_m}) = {got:#06x}, field product symbol*g^log_m = {want:#06x}", eng.name()));
        }
    }
    Ok(())
}

impl PartDyn for MulAll {
    fn name(&self) -> &'static str {
        "mul"
    }
    fn run(&self, run: &mut Run) {
        if run.failed() {
            return;
        }
        let t0 = Instant::now();
        let all = run.tier == Tier::Thorough;
        let mut stats = Stats::default();
        let engs = engines();
        let failure: Mutex<Option<(Eng, u16, String)>> = Mutex::new(None);
        let evals = AtomicU64::new(0);
        let next = AtomicU64::new(0);
        let seed = run.seed;
        let res = no_panic(|| {
            std::thread::scope(|sc| {
                for _ in 0..run.threads.max(1) {
                    sc.spawn(|| {
                        let mut syms: Vec<u16> = Vec::with_capacity(65536);
                        loop {
                            let log_m = next.fetch_add(1, Ordering::Relaxed);
                            if log_m > 65535 || failure.lock().unwrap().is_some() {
                                break;
                            }
                            syms.clear();
                            if all {
                                syms.extend(0..=65535u16);
                            } else {
                                let mut rng = Xs::new(seed ^ log_m.wrapping_mul(0x9E3779B9));
                                syms.extend_from_slice(&[0, 1, 2, 0xFFFF, 0x8000, 0x00FF, 0xFF00, 0x0F0F]);
                                for i in 0..16 {
                                    syms.push(1 << i);
                                }
                                while syms.len() < 2048 {
                                    syms.push(rng.next() as u16);
                                }
                            }
                            for &e in &engs {
                                if let Err(m) = mul_check(e, log_m as u16, &syms) {
                                    let mut f = failure.lock().unwrap();
                                    if f.is_none() {
                                        *f = Some((e, log_m as u16, m));
                                    }
                                    return;
                                }
                                evals.fetch_add(syms.len() as u64, Ordering::Relaxed);
                            }
                        }
                    });
                }
            })
        });
        if let Err(p) = res {
            run.record_failure(self.name(), json!({"note": "panic"}), p);
            return;
        }
        stats.evaluations = evals.load(Ordering::Relaxed);
        for log_m in 1..65535u32 {
            // each (engine, log_m) row with non-trivial multiplier
            stats.nontrivial_key(crate::runner::hash_of(&("mul", log_m)));
        }
        stats.classes.insert("engines".into(), engs.len() as u64);
        stats.classes.insert("symbols_per_log_m".into(), if all { 65536 } else { 2048 });
        stats.samples.push(json!({"engine": "NoSimd", "log_m": 4242, "symbol": 0x1234, "expected": field().mul_exp(0x1234, 4242)}));
        let f = failure.lock().unwrap().take();
        run.record_part(self.name(), stats, f.is_none() && all, if all { "all 2^32 (symbol, log_m) pairs per engine" } else { "all log_m x 2048 symbols per engine" }, t0);
        if let Some((e, log_m, m)) = f {
            run.record_failure(self.name(), json!({"eng": e, "log_m": log_m}), m);
        }
    }
    fn replay(&self, case: &Value) -> Result<(), String> {
        let e: Eng = serde_json::from_value(case["eng"].clone()).map_err(|e| e.to_string())?;
        let log_m = case["log_m"].as_u64().ok_or("no log_m")? as u16;
        let syms: Vec<u16> = (0..=65535u16).collect();
        no_panic(|| mul_check(e, log_m, &syms))?
    }
}

// ----------------------------------------------------------------------
// fft / ifft against polynomial evaluation in the LCH basis

#[derive(Clone, Debug, PartialEq, Eq, Hash, Serialize, Deserialize)]
pub struct XfCase {
    pub which: Xform,
    pub eng: Eng,
    pub size_log: u8,
    pub pos: usize,
    pub blocks: usize,
    pub trunc: usize,
    /// skew_delta = skew_chunk * size (chunk-aligned)
    pub skew_chunk: usize,
    pub seed: u64,
}

fn xf_strategy(t: Tier) -> BoxedStrategy<XfCase> {
    let max_log = t.pick(8u8, 10u8);
    (
        prop_oneof![Just(Xform::Fft), Just(Xform::Ifft)],
        gen::engine(),
        prop_oneof![40 => 0u8..=6, 10 => 7u8..=max_log, 1 => 11u8..=16],
        prop_oneof![2 => Just(0usize), 1 => 1usize..=5],
        1usize..=2,
        (0u8..5, any::<u16>()),
        (0u8..4, any::<u16>()),
        any::<u64>(),
    )
        .prop_map(|(which, eng, size_log, pos_mul, blocks, (tsel, traw), (ssel, sraw), seed)| {
            let size = 1usize << size_log;
            let trunc = match tsel {
                0 => size,
                1 => 1.min(size),
                2 => 0,
                _ => gen::idx_map(traw, size),
            };
            let chunks = 65536 / size; // skew_delta + size <= 65536
            let skew_chunk = match ssel {
                0 => 0,
                1 => 1,
                2 => chunks - 1,
                _ => gen::idx_map(sraw, chunks - 1),
            };
            let blocks = if size_log > 10 { 1 } else { blocks };
            let skew_chunk = skew_chunk.min(chunks - 1);
            XfCase { which, eng, size_log, pos: pos_mul * size.min(8), blocks, trunc, skew_chunk, seed }
        })
        .boxed()
}

/// values of the LCH-basis polynomial with coefficients `coeff` at the points base+i, i in 0..n
fn lch_values(coeff: &[u16], base: usize, n: usize) -> Vec<u16> {
    let f = field();
    let size = coeff.len();
    let bits = size.trailing_zeros() as usize;
    let mut out = Vec::with_capacity(n);
    let mut basis = vec![0u16; size];
    for i in 0..n {
        let x = (base + i) as u16;
        let mut sh = [0u16; 16];
        for t in 0..bits {
            sh[t] = f.s_hat(t, x);
        }
        basis[0] = 1;
        for j in 1..size {
            let t = j.trailing_zeros() as usize;
            basis[j] = f.mul(basis[j & (j - 1)], sh[t]);
        }
        let mut acc = 0u16;
        for j in 0..size {
            acc ^= f.mul(coeff[j], basis[j]);
        }
        out.push(acc);
    }
    out
}

fn check_xf(c: &XfCase, st: &mut Stats) -> CheckResult {
    let size = 1usize << c.size_log;
    let skew_delta = c.skew_chunk * size;
    ensure!(skew_delta + size <= 65536 && c.trunc <= size, "harness: case outside the contract");
    let n = c.pos + size + 1;
    let mut buf = Buf::zeroed(n, c.blocks, 0);
    crate::prims::fill_structured(&mut buf.data, c.seed);
    let mut rng = Xs::new(c.seed);
    if c.which == Xform::Ifft {
        for i in c.pos + c.trunc..c.pos + size {
            for blk in buf.shard_mut(i) {
                *blk = [0u8; 64];
            }
        }
    }
    let input = buf.clone();
    let misalign = if c.seed % 3 == 0 && c.size_log <= 12 { 1 + (c.seed >> 8) as usize % 63 } else { 0 };
    prims::xform_at(c.eng, c.which, &mut buf, misalign, c.pos, size, c.trunc, skew_delta);
    // sampled slots: first, last, one random
    let nslots = 32 * c.blocks;
    let mut slots = vec![0usize, nslots - 1, rng.below(nslots)];
    slots.dedup();
    // evaluation points: all of them for sizes <= 1024; for larger transforms a sample that contains the
    // borders of the truncated range and of every quarter / eighth (the reference costs O(size) per point)
    let limit = match c.which {
        Xform::Fft => c.trunc,
        Xform::Ifft => size,
    };
    let points: Vec<usize> = if size <= 1024 {
        (0..limit).collect()
    } else {
        slots.truncate(1);
        let mut v = vec![0usize, 1, limit.saturating_sub(1), limit.saturating_sub(2), limit / 2];
        for q in 1..8 {
            let b = q * size / 8;
            v.extend_from_slice(&[b.saturating_sub(1), b, b + 1]);
        }
        for _ in 0..12 {
            v.push(rng.below(limit.max(1)));
        }
        v.retain(|&p| p < limit);
        v.sort_unstable();
        v.dedup();
        v
    };
    for &s in &slots {
        match c.which {
            Xform::Fft => {
                let coeff: Vec<u16> = (0..size).map(|i| input.sym(c.pos + i, s)).collect();
                for &i in &points {
                    let want = lch_values(&coeff, skew_delta + i, 1)[0];
                    let got = buf.sym(c.pos + i, s);
                    if got != want {
                        fail!(
                            "{}::fft(size {size}, truncated {}, skew_delta {skew_delta}): output {i} (slot {s}) = {got:#06x}, the polynomial with the input LCH coefficients has value {want:#06x} at point {}",
                            c.eng.name(), c.trunc, skew_delta + i
                        );
                    }
                }
            }
            Xform::Ifft => {
                let coeff: Vec<u16> = (0..size).map(|i| buf.sym(c.pos + i, s)).collect();
                for &i in &points {
                    let val = lch_values(&coeff, skew_delta + i, 1)[0];
                    let want = input.sym(c.pos + i, s);
                    if val != want {
                        fail!(
                            "{}::ifft(size {size}, truncated {}, skew_delta {skew_delta}): the output coefficients (slot {s}) evaluate to {val:#06x} at point {}, the input there was {want:#06x}",
                            c.eng.name(), c.trunc, skew_delta + i
                        );
                    }
                }
            }
        }
    }
    st.classf("op", format!("{:?}", c.which));
    st.classf("engine", c.eng.name());
    st.classf("misaligned", misalign != 0);
    st.classf("size_log", c.size_log);
    st.classf("skew", if c.skew_chunk == 0 { "0" } else if (c.skew_chunk + 1) * size == 65536 { "table-end" } else { "inner" });
    if c.trunc < size && c.trunc > 0 {
        st.nontrivial_case("transform", c);
    }
    Ok(())
}

// ----------------------------------------------------------------------
// eval_poly against the erasure-locator definition

#[derive(Clone, Debug, PartialEq, Eq, Hash, Serialize, Deserialize)]
pub struct EpCase {
    pub eng: Eng,
    pub inner: EvalPolyCase,
}

fn ep_strategy(t: Tier) -> BoxedStrategy<EpCase> {
    (gen::engine(), evalpoly_strategy(t)).prop_map(|(eng, inner)| EpCase { eng, inner }).boxed()
}

fn check_ep(c: &EpCase, st: &mut Stats) -> CheckResult {
    let (input, last) = evalpoly_input(&c.inner);
    let marks: Vec<u32> = (0..65536u32).filter(|&i| input[i as usize] != 0).collect();
    let t1 = evalpoly_trunc(&c.inner, last);
    let t2 = if t1 == 65536 { last } else { 65536 };
    let mut out1 = input.clone();
    prims::eval_poly(c.eng, &mut out1, t1);
    let mut out2 = input.clone();
    prims::eval_poly(c.eng, &mut out2, t2);
    if out1[..] != out2[..] {
        let at = out1.iter().zip(out2.iter()).position(|(x, y)| x != y).unwrap();
        fail!("{}::eval_poly gives different results for truncated_size {t1} and {t2} although both cover all {} marks (first difference at point {at})", c.eng.name(), marks.len());
    }
    // reference: all points when the mark set is small, sampled points otherwise
    let points: Vec<u32> = if marks.len() <= 160 {
        (0..65536).collect()
    } else {
        let mut rng = Xs::new(c.inner.seed ^ 0xE7A1);
        let mut v: Vec<u32> = vec![0, 1, 65535, last.saturating_sub(1) as u32, (last % 65536) as u32];
        for _ in 0..48 {
            v.push(rng.below(65536) as u32);
        }
        for _ in 0..43 {
            v.push(marks[rng.below(marks.len())]);
        }
        v
    };
    for &x in &points {
        let want = refmodel::ref_eval_poly_at(&marks, x);
        let got = out1[x as usize] as u32;
        if !eq_mod(got, want) {
            fail!(
                "{}::eval_poly(truncated_size {t1}) at point {x}: {got}, definition sum over the {} marked j != x of log(x^j) mod 65535 gives {want}",
                c.eng.name(), marks.len()
            );
        }
    }
    st.classf("engine", c.eng.name());
    st.classf("shape", c.inner.shape);
    st.classf("marks", if marks.len() <= 160 { "sparse-all-points" } else { "dense-sampled-points" });
    if marks.len() >= 2 {
        st.nontrivial_case("eval_poly", c);
    }
    Ok(())
}
