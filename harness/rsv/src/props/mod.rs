//! Property registry.

use crate::runner::PartDyn;

pub mod c01;
pub mod c02;
pub mod c03;
pub mod c04;
pub mod c05;
pub mod c06;
pub mod c07;
pub mod c08;
pub mod c09;
pub mod c10;
pub mod c11;
pub mod c12;
pub mod c13;
pub mod c14;
pub mod c15;
pub mod c16;
pub mod c17;

pub struct PropDef {
    pub id: &'static str,
    pub rule: &'static str,
    pub assumptions: &'static [&'static str],
    pub parts: fn() -> Vec<Box<dyn PartDyn>>,
}

pub fn all() -> Vec<PropDef> {
    vec![c01::def(), c02::def(), c03::def(), c04::def(), c05::def(), c06::def(), c07::def(), c08::def(), c09::def(), c10::def(), c11::def(), c12::def(), c13::def(), c14::def(), c15::def(), c16::def(), c17::def()]
}

pub fn find(id: &str) -> Option<PropDef> {
    all().into_iter().find(|p| p.id.eq_ignore_ascii_case(id))
}
