//! C10 - one-shot encode()/decode() equal the streaming API, errors included.

use crate::gen::Xs;
use crate::model::*;
use crate::props::c06::{oneshot_strategy, resolve_list, OneShot};
use crate::props::PropDef;
use crate::runner::{no_panic, CheckResult, Fail, GenPart, PartDyn, Stats};
use crate::{ensure, fail};
use reed_solomon_simd::{Error, ReedSolomonDecoder, ReedSolomonEncoder};
use std::collections::BTreeMap;

pub fn def() -> PropDef {
    PropDef {
        id: "C10",
        rule: "generated argument tuples of encode and decode: counts from small values and the extreme pools, a valid sufficient base input with 0..2 injected faults (index replaced by duplicate / count+d / huge value, length replaced, shards dropped or added, recovery removed). every call through one of four iterator kinds (slice; filter over a longer container, i.e. loose size_hint; from_fn, i.e. no size_hint; re-entrant: the iterator itself makes complete one-shot calls while the crate is pulling from it); count pairs include the 2-wide band around the envelope boundary with a complete set of originals. oracle: the documented streaming sequence is executed (ReedSolomonEncoder::new(k,r,len(first)) + adds in order + encode; ReedSolomonDecoder sized from the first recovery shard + adds + decode): streaming Ok => one-shot Ok with identical Vec / map; streaming Err => one-shot Err with an error that is truthful for the input (model of C06; order of checks is free); without recovery shards: never Ok unless all indexes are in range and unique, all lengths equal, even, non-zero and all k originals present. non-trivial: faulty input without recovery shards, or >=2 faults, or success with originals and recovery mixed; distinct by full case",
        assumptions: &["shard contents are arbitrary bytes: equality with the streaming API does not need consistent shards"],
        parts,
    }
}

fn parts() -> Vec<Box<dyn PartDyn>> {
    vec![Box::new(GenPart { name: "oneshot_vs_streaming", quick: 50_000, thorough: 1_500_000, shrink_iters: 1500, strat: oneshot_strategy, check })]
}

fn shard(len: usize, seed: u64) -> Vec<u8> {
    let mut v = vec![0u8; len];
    Xs::new(seed).fill(&mut v);
    v
}

/// complete, valid one-shot calls made from inside another call's shard iterator; their results are checked
/// set once a re-entrant call has run into its deadline: no further re-entrant calls are made in this process
static REENTRANT_DEAD: std::sync::atomic::AtomicBool = std::sync::atomic::AtomicBool::new(false);

fn kind_of(hseed: u64) -> u64 {
    let k = hseed % 4;
    if k == 3 && REENTRANT_DEAD.load(std::sync::atomic::Ordering::Relaxed) {
        0
    } else {
        k
    }
}

fn nested_calls() {
    let a = vec![1u8, 2, 3, 4];
    let b = vec![5u8, 6, 7, 8];
    let rec = reed_solomon_simd::encode(2, 1, [&a, &b]).expect("nested one-shot encode of valid input failed");
    let none: [(usize, &Vec<u8>); 0] = [];
    let all = reed_solomon_simd::decode(2, 1, [(0, &a), (1, &b)], none).expect("nested one-shot decode (no recovery) of valid input failed");
    assert!(all.is_empty(), "nested decode with all originals restored something");
    let got = reed_solomon_simd::decode(2, 1, [(1, &b)], [(0, &rec[0])]).expect("nested one-shot decode of valid input failed");
    assert!(got.get(&0) == Some(&a), "nested decode restored wrong data");
}

fn streaming_encode(k: usize, r: usize, shards: &[Vec<u8>]) -> Result<Vec<Vec<u8>>, Error> {
    let b = shards[0].len();
    let mut enc = ReedSolomonEncoder::new(k, r, b)?;
    for s in shards {
        enc.add_original_shard(s)?;
    }
    let res = enc.encode()?;
    Ok(res.recovery_iter().map(|s| s.to_vec()).collect())
}

fn streaming_decode(k: usize, r: usize, o: &[(usize, Vec<u8>)], rv: &[(usize, Vec<u8>)]) -> Result<BTreeMap<usize, Vec<u8>>, Error> {
    let b = rv[0].1.len();
    let mut dec = ReedSolomonDecoder::new(k, r, b)?;
    for (i, s) in o {
        dec.add_original_shard(*i, s)?;
    }
    for (i, s) in rv {
        dec.add_recovery_shard(*i, s)?;
    }
    let res = dec.decode()?;
    Ok(res.restored_original_iter().map(|(i, s)| (i, s.to_vec())).collect())
}

pub fn check(c: &OneShot, st: &mut Stats) -> CheckResult {
    let hseed = crate::runner::hash_of(c);
    match c {
        OneShot::Encode { k, r, b, lens } => {
            let lens: Vec<usize> = lens.iter().map(|l| l.len(*b)).collect();
            let shards: Vec<Vec<u8>> = lens.iter().enumerate().map(|(i, &l)| shard(l, hseed ^ i as u64)).collect();
            let truth = truth_oneshot_encode(*k, *r, &lens);
            let what = format!("encode({k}, {r}, shards of lengths {lens:?})");
            // the iterator kind is part of the input: exact slice / filtered longer container (loose upper
            // bound) / from_fn (no bounds at all)
            let mut deadline_hit = false;
            let one = no_panic(|| match kind_of(hseed) {
                3 => {
                    // re-entrant: while the crate pulls shards from this iterator, the iterator itself makes
                    // complete one-shot calls on the same thread (lazy multi-level coding does that). A faulty
                    // implementation may self-deadlock here, so the call runs under a deadline.
                    let (k, r, sh) = (*k, *r, shards.clone());
                    match crate::runner::with_deadline(60, move || {
                        no_panic(|| {
                            let mut n = 0;
                            reed_solomon_simd::encode(k, r, sh.iter().inspect(|_| {
                                n += 1;
                                if n <= 2 {
                                    nested_calls();
                                }
                            }))
                        })
                    }) {
                        Some(Ok(v)) => v,
                        Some(Err(p)) => panic!("{p}"),
                        None => {
                            deadline_hit = true;
                            REENTRANT_DEAD.store(true, std::sync::atomic::Ordering::Relaxed);
                            // the abandoned thread may hold a process-wide lock of the crate for ever, which would
                            // wedge every other worker: stop the whole check now, as inconclusive
                            println!("INCONCLUSIVE property=C10 a re-entrant one-shot call (the shard iterator itself calls encode/decode) did not return within 60 s: suspected self-deadlock; a time-out is never reported as a violation");
                            std::process::exit(2);
                            Err(Error::TooFewOriginalShards { original_count: usize::MAX, original_received_count: usize::MAX })
                        }
                    }
                }
                0 => reed_solomon_simd::encode(*k, *r, &shards),
                1 => {
                    let padded: Vec<(bool, &Vec<u8>)> = shards.iter().flat_map(|s| [(true, s), (false, s)]).collect();
                    reed_solomon_simd::encode(*k, *r, padded.iter().filter(|x| x.0).map(|x| x.1))
                }
                _ => {
                    let mut i = 0;
                    reed_solomon_simd::encode(*k, *r, std::iter::from_fn(|| {
                        i += 1;
                        shards.get(i - 1)
                    }))
                }
            })
            .map_err(|p| format!("{what} {p}"))?;
            if deadline_hit {
                // suspected self-deadlock of a re-entrant call: inconclusive, never a violation
                st.count("inconclusive_reentrant_call_deadline", 1);
                return Ok(());
            }
            st.classf("iterator", ["slice", "filtered", "from_fn", "reentrant"][kind_of(hseed) as usize]);
            if shards.is_empty() {
                judge(&what, &one, &truth)?;
            } else {
                let stream = no_panic(|| streaming_encode(*k, *r, &shards)).map_err(|p| format!("streaming sequence for {what} {p}"))?;
                match (&stream, &one) {
                    (Ok(s), Ok(o)) => ensure!(s == o, "{what}: one-shot result differs from the streaming encoder's recovery shards"),
                    (Ok(_), Err(e)) => fail!("{what}: streaming encoder succeeds but one-shot returns Err({e:?})"),
                    (Err(es), Ok(_)) => fail!("{what}: streaming sequence fails with {es:?} but one-shot returns Ok"),
                    (Err(_), Err(_)) => judge(&what, &one, &truth)?,
                }
            }
            st.classf("encode", if truth.is_empty() { "ok".to_string() } else { format!("err{}", truth.len().min(4)) });
            if truth.len() >= 2 {
                st.nontrivial_key(hseed);
            }
        }
        OneShot::Decode { k, r, b, originals, recovery } => {
            let o = resolve_list(originals, *k, *b);
            let rv = resolve_list(recovery, *r, *b);
            let os: Vec<(usize, Vec<u8>)> = o.iter().enumerate().map(|(j, &(i, l))| (i, shard(l, hseed ^ j as u64))).collect();
            let rs: Vec<(usize, Vec<u8>)> = rv.iter().enumerate().map(|(j, &(i, l))| (i, shard(l, hseed ^ 0x8000 ^ j as u64))).collect();
            let truth = truth_oneshot_decode(*k, *r, &o, &rv);
            let what = format!("decode({k}, {r}, originals (index,len) {o:?}, recovery (index,len) {rv:?})");
            let mut deadline_hit = false;
            let one = no_panic(|| match kind_of(hseed) {
                3 => {
                    let (k, r, os2, rs2) = (*k, *r, os.clone(), rs.clone());
                    match crate::runner::with_deadline(60, move || {
                        no_panic(|| {
                            let (mut a, mut b) = (0, 0);
                            reed_solomon_simd::decode(
                                k,
                                r,
                                os2.iter().map(|(i, s)| (*i, s)).inspect(|_| {
                                    a += 1;
                                    if a <= 2 {
                                        nested_calls();
                                    }
                                }),
                                rs2.iter().map(|(i, s)| (*i, s)).inspect(|_| {
                                    b += 1;
                                    if b <= 2 {
                                        nested_calls();
                                    }
                                }),
                            )
                        })
                    }) {
                        Some(Ok(v)) => v,
                        Some(Err(p)) => panic!("{p}"),
                        None => {
                            deadline_hit = true;
                            REENTRANT_DEAD.store(true, std::sync::atomic::Ordering::Relaxed);
                            // the abandoned thread may hold a process-wide lock of the crate for ever, which would
                            // wedge every other worker: stop the whole check now, as inconclusive
                            println!("INCONCLUSIVE property=C10 a re-entrant one-shot call (the shard iterator itself calls encode/decode) did not return within 60 s: suspected self-deadlock; a time-out is never reported as a violation");
                            std::process::exit(2);
                            Err(Error::NotEnoughShards { original_count: usize::MAX, original_received_count: 0, recovery_received_count: 0 })
                        }
                    }
                }
                0 => reed_solomon_simd::decode(*k, *r, os.iter().map(|(i, s)| (*i, s)), rs.iter().map(|(i, s)| (*i, s))),
                1 => {
                    let po: Vec<(bool, usize, &Vec<u8>)> = os.iter().flat_map(|(i, s)| [(false, *i, s), (true, *i, s)]).collect();
                    let pr: Vec<(bool, usize, &Vec<u8>)> = rs.iter().flat_map(|(i, s)| [(true, *i, s), (false, *i, s), (false, 0, s)]).collect();
                    reed_solomon_simd::decode(*k, *r, po.iter().filter(|x| x.0).map(|x| (x.1, x.2)), pr.iter().filter(|x| x.0).map(|x| (x.1, x.2)))
                }
                _ => {
                    let (mut i, mut j) = (0, 0);
                    reed_solomon_simd::decode(
                        *k,
                        *r,
                        std::iter::from_fn(|| {
                            i += 1;
                            os.get(i - 1).map(|(x, s)| (*x, s))
                        }),
                        std::iter::from_fn(|| {
                            j += 1;
                            rs.get(j - 1).map(|(x, s)| (*x, s))
                        }),
                    )
                }
            })
            .map_err(|p| format!("{what} {p}"))?;
            if deadline_hit {
                // suspected self-deadlock of a re-entrant call: inconclusive, never a violation
                st.count("inconclusive_reentrant_call_deadline", 1);
                return Ok(());
            }
            st.classf("iterator", ["slice", "filtered", "from_fn", "reentrant"][kind_of(hseed) as usize]);
            let one: Result<BTreeMap<usize, Vec<u8>>, Error> = one.map(|m| m.into_iter().collect());
            if rs.is_empty() {
                // no inferred size is documented: the property's own list decides
                if let Err(m) = judge(&what, &one, &truth) {
                    let sig = if one.is_ok() { Some("decode-no-recovery-ok-on-faulty-input".to_string()) } else { None };
                    return Err(Fail { sig, msg: m });
                }
                if let Ok(m) = &one {
                    ensure!(m.is_empty(), "{what}: all originals given, yet {} shards reported as restored", m.len());
                }
            } else {
                let stream = no_panic(|| streaming_decode(*k, *r, &os, &rs)).map_err(|p| format!("streaming sequence for {what} {p}"))?;
                match (&stream, &one) {
                    (Ok(s), Ok(o)) => ensure!(s == o, "{what}: one-shot restored map differs from the streaming decoder's"),
                    (Ok(_), Err(e)) => fail!("{what}: streaming decoder succeeds but one-shot returns Err({e:?})"),
                    (Err(es), Ok(_)) => fail!("{what}: streaming sequence fails with {es:?} but one-shot returns Ok"),
                    (Err(_), Err(_)) => judge(&what, &one, &truth)?,
                }
                // the streaming API itself must be consistent with the model, otherwise the comparison is void
                judge(&format!("streaming sequence for {what}"), &stream, &truth)?;
            }
            st.classf("decode", format!("{}{}", if rv.is_empty() { "norec-" } else { "" }, if truth.is_empty() { "ok".to_string() } else { format!("err{}", truth.len().min(4)) }));
            if truth.len() >= 2 || (rv.is_empty() && !truth.is_empty()) || (truth.is_empty() && !o.is_empty() && !rv.is_empty()) {
                st.nontrivial_key(hseed);
            }
        }
    }
    Ok(())
}
