//! C05 - results never depend on what the codec object did before.

use crate::engines::*;
use crate::gen::Cfg;
use crate::gen;
use crate::history::*;
use crate::hooks::{poison_stats, PoisonGuard};
use crate::props::PropDef;
use crate::runner::{CheckResult, GenPart, PartDyn, Stats, Tier};
use crate::{ensure, fail};
use proptest::prelude::*;
use serde::{Deserialize, Serialize};

pub fn def() -> PropDef {
    PropDef {
        id: "C05",
        rule: "generated histories (1..12 ops) on one encoder or decoder of every family x engine: reset to other counts / shard size / rate, complete rounds (result read or dropped unread), abandoned partial rounds, failing adds, failing resets, premature encode/decode, into_parts -> new(Some(work)) into another family and engine; half of the histories with the poison hook armed (every byte of working memory that survives a resize is replaced by seeded noise). oracle: at every encode/decode the calls made since the last reset / dropped result are replayed on a freshly constructed object of the current configuration; every call result and the output bytes must be identical. part long_life: one tiny encoder or decoder lives through 2..4 epochs of 0..3 / ~256 / ~512 / ~65536 cheap complete rounds, each followed by a real round compared with a fresh object (and with the originals), without any explicit reset (wrapping per-round counters and stamps). part reset_streaks: one object (first built for a larger configuration) goes through 1..4 streaks of 0..300 consecutive resets that cycle through 1..3 small configurations (with a cheap round after every reset, every few, or never; in a third of the streaks the steps are, or alternate with, into_parts -> new(Some(work)) of the next codec family; in three of eight every step is preceded by a failing add and/or a failing reset), each streak followed by a real round compared with a fresh object and the originals (amortised shrinking / re-sizing decisions that count consecutive resets). part big_history: the same oracle on few, long shards (working spaces 1 MiB .. 256 MiB quick / 2 GiB thorough, log-uniform) with several rounds per object. non-trivial: >=2 completed rounds on the one object (the classes report how many of them had a configuration change, recycle, failed call or poison in between); distinct by full history",
        assumptions: &[
            "an implementation does not carry knowledge about the *contents* of working memory across a resize (poison only overwrites the retained prefix, where real stale bytes live)",
            "shard contents are arbitrary bytes: the decoder is compared with a fresh decoder on the same inputs, consistency of the shards is not needed for this property",
        ],
        parts,
    }
}

fn strategy(t: Tier) -> BoxedStrategy<History> {
    history(
        t.pick(700, 1500),
        12,
        OpWeights { reset: 5, reset_bad: 1, recycle: 2, round: 8, partial: 2, bad_add: 2, finish: 1 },
    )
}

fn parts() -> Vec<Box<dyn PartDyn>> {
    vec![
        Box::new(GenPart { name: "history", quick: 20_000, thorough: 200_000, shrink_iters: 1500, strat: strategy, check }),
        Box::new(GenPart { name: "big_history", quick: 14, thorough: 400, shrink_iters: 30, strat: big_strategy, check: check_big }),
        Box::new(GenPart { name: "long_life", quick: 400, thorough: 1_500, shrink_iters: 60, strat: long_strategy, check: check_long }),
        Box::new(GenPart { name: "reset_streaks", quick: 6_000, thorough: 150_000, shrink_iters: 200, strat: streak_strategy, check: check_streak }),
    ]
}

/// few, long shards: working spaces from 1 MiB to 256 MiB (quick) / 2 GiB (thorough), log-uniform,
/// several rounds on one object with and without resets in between (size-dependent fast paths)
pub fn big_strategy(t: Tier) -> BoxedStrategy<History> {
    big_strategy_with(t, false)
}

/// `failures`: also failing adds, partial rounds and premature finishes (for the twin check of C07)
pub fn big_strategy_with(t: Tier, failures: bool) -> BoxedStrategy<History> {
    let max_q = t.pick(4 * 28u8, 4 * 31u8);
    let cfg = move || {
        (1usize..=8, 1usize..=8, any::<bool>(), prop_oneof![1 => (4 * 20u8)..=(4 * 24u8), 3 => (4 * 24u8)..=max_q], 0usize..64).prop_map(|(bounded, other, flip, q, jitter)| {
            let bytes = 2f64.powf(q as f64 / 4.0) as usize;
            let positions = (bounded.next_power_of_two() + other).next_power_of_two();
            RawCfg { bounded, other, flip, size: ((bytes / positions) / 2 * 2 + jitter * 2).max(2) }
        })
    };
    let wf = if failures { 5 } else { 0 };
    let op = prop_oneof![
        6 => (any::<u64>(), gen::recv_spec()).prop_map(|(seed, recv)| Op::Round { seed, recv, read: true }),
        // duplicates of accepted shards (with other bytes) half of the time, any failing add otherwise
        wf => (prop_oneof![Just(5u8), Just(6u8), 0u8..11], any::<u16>(), any::<u64>()).prop_map(|(variant, raw, seed)| Op::BadAdd { variant, raw, seed }),
        wf => (any::<u64>(), gen::recv_spec(), any::<u16>()).prop_map(|(seed, recv, n_raw)| Op::Partial { seed, recv, n_raw }),
        1 => Just(Op::ResetSame),
        1 => cfg().prop_map(Op::Reset),
        1 => (gen::kind_rate(), gen::engine(), cfg(), any::<bool>()).prop_map(|(kind, eng, cfg, same)| Op::Recycle { kind, eng, cfg, same }),
    ];
    (any::<bool>(), gen::kind_any())
        .prop_flat_map(move |(dec, kind)| {
            (gen::engine_for(kind), cfg(), prop::collection::vec(op.clone(), 2..=5)).prop_map(move |(eng, init, ops)| {
                // the slow engines would take seconds per round at these sizes
                let eng = if eng == Eng::Naive || eng == Eng::Neon { Eng::NoSimd } else { eng };
                History { dec, kind, eng, init, poison: false, ops }
            })
        })
        .boxed()
}

pub fn biggest_working_set(h: &History) -> usize {
    let biggest = std::iter::once(&h.init)
        .chain(h.ops.iter().filter_map(|o| match o {
            Op::Reset(c) | Op::Recycle { cfg: c, .. } => Some(c),
            _ => None,
        }))
        .map(|c| (c.bounded.next_power_of_two() + c.other).next_power_of_two() * c.size.div_ceil(64) * 64)
        .max()
        .unwrap_or(0);
    biggest
}

fn check_big(h: &History, st: &mut Stats) -> CheckResult {
    // subject + fresh twin + shard inputs
    crate::runner::with_memory_budget(biggest_working_set(h) * 4 + (1 << 20), || check(h, st))
}

pub fn check(h: &History, st: &mut Stats) -> CheckResult {
    let dec = h.dec;
    let mut kind = h.kind;
    let mut eng = h.eng;
    let mut cur = h.init.orient(kind);
    let seed = crate::runner::hash_of(h);
    let (_, bytes0) = poison_stats();
    let _guard = if h.poison { Some(PoisonGuard::arm(seed)) } else { None };

    let mut subject = match Obj::make(dec, kind, eng, cur) {
        Ok(o) => o,
        Err(e) => fail!("construction with supported configuration {cur:?} failed: {e:?}"),
    };
    let mut acc = Accepted::default();
    let mut log: Vec<(Call, Outcome)> = Vec::new();
    let mut completed = 0u32;
    let mut disturbances = 0u32; // config change / recycle / failed call between completed rounds
    let mut saw = std::collections::BTreeSet::new();
    let mut rate_high = kind.is_high(cur.k, cur.r);
    let mut past: Vec<Cfg> = Vec::new();

    for (opi, op) in h.ops.iter().enumerate() {
        if let Op::Recycle { kind: k2, eng: e2, cfg, same } = op {
            if kind == Kind::Rs {
                continue;
            }
            let c2 = recycle_cfg(*k2, cfg, *same, cur);
            subject = match crate::runner::no_panic(|| subject.recycle(*k2, *e2, c2)) {
                Ok(Ok(o)) => o,
                Ok(Err(e)) => fail!("op {opi}: new(Some(work)) with supported configuration {c2:?} failed: {e:?}"),
                Err(p) => fail!("op {opi}: new(Some(work)) panicked: {p}"),
            };
            kind = *k2;
            eng = *e2;
            if c2 != cur {
                past.push(cur);
            }
            cur = c2;
            acc.clear();
            log.clear();
            disturbances += 1;
            saw.insert("recycle");
            continue;
        }
        for call in expand(op, dec, kind, cur, &acc, &past) {
            let out = match subject.apply(&call) {
                Ok(o) => o,
                Err(p) => fail!("op {opi} ({}): {call_brief} {p}", op_label(op), call_brief = brief(&call)),
            };
            match &call {
                Call::Reset(k, r, b) => {
                    if out.is_ok() {
                        let new = Cfg { k: *k, r: *r, b: *b };
                        if new.b.div_ceil(64) != cur.b.div_ceil(64) {
                            saw.insert("block-count-change");
                        }
                        let nh = kind.is_high(new.k, new.r);
                        if nh != rate_high {
                            saw.insert("rate-switch");
                        }
                        rate_high = nh;
                        if new != cur {
                            disturbances += 1;
                            if past.contains(&new) {
                                saw.insert("return-to-earlier-configuration");
                            }
                            past.push(cur);
                        }
                        cur = new;
                        acc.clear();
                        log.clear();
                    } else {
                        disturbances += 1;
                        saw.insert("failed-reset");
                    }
                }
                Call::AddO(..) | Call::AddR(..) => {
                    if out.is_ok() {
                        acc.note(dec, &call);
                    } else {
                        disturbances += 1;
                        saw.insert("failed-add");
                    }
                    log.push((call.clone(), out));
                }
                Call::Finish { read } => {
                    // the same calls on a freshly constructed object
                    let mut fresh = match Obj::make(dec, kind, eng, cur) {
                        Ok(o) => o,
                        Err(e) => fail!("op {opi}: a fresh object cannot be built for the configuration {cur:?} the reused object accepted: {e:?}"),
                    };
                    for (c, o) in &log {
                        let of = fresh.apply(c).map_err(|p| format!("fresh object: {} {p}", brief(c)))?;
                        if &of != o {
                            fail!(
                                "op {opi}: {} returned {} on the reused object but {} on a fresh object in the same round state",
                                brief(c), o.brief(), of.brief()
                            );
                        }
                    }
                    let of = fresh.apply(&Call::Finish { read: true }).map_err(|p| format!("fresh object: finish {p}"))?;
                    let same = if *read {
                        out == of
                    } else {
                        // unread result: only success/failure and the error value can be compared
                        match (&out, &of) {
                            (Outcome::Enc(Ok(_)), Outcome::Enc(Ok(_))) | (Outcome::Dec(Ok(_)), Outcome::Dec(Ok(_))) => true,
                            (a, b) => a == b,
                        }
                    };
                    if !same {
                        fail!(
                            "op {opi}: {} on the reused object gives {} but a fresh object given the same shards gives {} (family {}, engine {}, cfg {cur:?})",
                            if dec { "decode" } else { "encode" }, out.brief(), of.brief(), kind.name(), eng.name()
                        );
                    }
                    if out.is_ok() {
                        completed += 1;
                        if completed >= 2 {
                            st.nontrivial_key(seed);
                        }
                        acc.clear();
                        log.clear();
                    } else {
                        disturbances += 1;
                        saw.insert("failed-finish");
                    }
                }
            }
        }
    }
    ensure!(true, "");
    st.classf("subject", if dec { "decoder" } else { "encoder" });
    st.classf("kind", h.kind.name());
    st.classf("poison", h.poison);
    st.classf("completed_rounds", completed.min(6));
    st.classf("disturbed", disturbances > 0 || h.poison);
    for s in saw {
        st.classf("saw", s);
    }
    if h.poison {
        let (_, bytes1) = poison_stats();
        st.count("poison_bytes", bytes1 - bytes0);
        st.count("poison_histories", 1);
    }
    Ok(())
}

pub fn brief(c: &Call) -> String {
    match c {
        Call::Reset(k, r, b) => format!("reset({k},{r},{b})"),
        Call::AddO(i, s) => format!("add_original(index {i}, {} bytes)", s.len()),
        Call::AddR(i, s) => format!("add_recovery(index {i}, {} bytes)", s.len()),
        Call::Finish { read } => format!("finish(read={read})"),
    }
}

// ----------------------------------------------------------------------
// long-lived objects: hundreds to ~140 000 rounds on ONE tiny encoder or decoder without explicit reset
// (epoch lengths around 2^8 and 2^16: wrapping generation counters, stamps and similar per-round state)

#[derive(Clone, Debug, PartialEq, Eq, Hash, Serialize, Deserialize)]
pub struct LongCase {
    pub dec: bool,
    pub kind: Kind,
    pub eng: Eng,
    pub k: usize,
    pub r: usize,
    pub b: usize,
    /// (number of cheap rounds, then one real round described by the spec and seed)
    pub epochs: Vec<(u32, gen::RecvSpec, u64)>,
}

fn long_strategy(_t: Tier) -> BoxedStrategy<LongCase> {
    let n = prop_oneof![
        4 => 0u32..=3,
        6 => 250u32..=260,
        2 => 500u32..=520,
        2 => 65_530u32..=65_540,
    ];
    (any::<bool>(), gen::kind_any()).prop_flat_map(move |(dec, kind)| {
        (any::<u8>(), 1usize..=6, 1usize..=6, prop_oneof![Just(2usize), Just(64), Just(66)], prop::collection::vec((n.clone(), gen::recv_spec(), any::<u64>()), 2..=4)).prop_map(move |(eraw, k, r, b, epochs)| {
            let fast: Vec<Eng> = [Eng::NoSimd, Eng::Ssse3, Eng::Avx2, Eng::Default].iter().copied().filter(|e| e.available()).collect();
            let eng = if kind == Kind::Rs { Eng::Default } else { fast[(eraw as usize * fast.len()) >> 8] };
            LongCase { dec, kind, eng, k, r, b, epochs }
        })
    })
    .boxed()
}

fn check_long(c: &LongCase, st: &mut Stats) -> CheckResult {
    let (k, r, b) = (c.k, c.r, c.b);
    let mut obj = Obj::make(c.dec, c.kind, c.eng, Cfg { k, r, b }).map_err(|e| format!("construction failed: {e:?}"))?;
    let cheap_data = gen::DataSpec { mode: 0, seed: 1 }.expand(k, b);
    let mut rounds = 0u64;
    for (ei, (cheap, recv, seed)) in c.epochs.iter().enumerate() {
        // cheap rounds: complete, result dropped (decoder: every original given, nothing to restore)
        for _ in 0..*cheap {
            for (i, d) in cheap_data.iter().enumerate() {
                let out = obj.apply(&Call::AddO(i, d.clone()))?;
                ensure!(out.is_ok(), "round {rounds}: add rejected on an object that only ever completed rounds: {}", out.brief());
            }
            let out = obj.apply(&Call::Finish { read: false })?;
            ensure!(out.is_ok(), "round {rounds}: {} failed: {}", if c.dec { "decode" } else { "encode" }, out.brief());
            rounds += 1;
        }
        // a real round with new data, compared with a fresh object and (decoder) with the originals
        let data = gen::DataSpec { mode: (ei % 2) as u8 * 5, seed: *seed }.expand(k, b);
        let mut calls = Vec::new();
        let mut given = Vec::new();
        if c.dec {
            let rec = encode_all(c.kind, c.eng, k, r, b, &data).map_err(|e| format!("encode failed: {e:?}"))?;
            given = recv.arrival(k, r);
            for g in &given {
                calls.push(if g.rec { Call::AddR(g.idx, rec[g.idx].clone()) } else { Call::AddO(g.idx, data[g.idx].clone()) });
            }
        } else {
            for (i, d) in data.iter().enumerate() {
                calls.push(Call::AddO(i, d.clone()));
            }
        }
        calls.push(Call::Finish { read: true });
        let mut fresh = Obj::make(c.dec, c.kind, c.eng, Cfg { k, r, b }).map_err(|e| format!("construction failed: {e:?}"))?;
        let mut last = None;
        for call in &calls {
            let o = obj.apply(call)?;
            let of = fresh.apply(call)?;
            if o != of {
                fail!(
                    "after {rounds} completed rounds on one {} (no explicit reset): {} gives {} but a fresh object gives {} (family {}, engine {}, {k}+{r} x {b})",
                    if c.dec { "decoder" } else { "encoder" }, brief(call), o.brief(), of.brief(), c.kind.name(), c.eng.name()
                );
            }
            last = Some(o);
        }
        if let Some(Outcome::Dec(Ok(Some(m)))) = &last {
            crate::props::c01::check_restored(k, b, &given, &data, m)?;
        }
        rounds += 1;
    }
    st.classf("subject", if c.dec { "decoder" } else { "encoder" });
    st.classf("rounds_log2", 64 - rounds.leading_zeros());
    if rounds >= 256 {
        st.nontrivial_case("long_life", c);
    }
    Ok(())
}

// ----------------------------------------------------------------------
// reset streaks: many consecutive resets (no round, or only cheap rounds, in between), cycling through a few
// small configurations on an object that was first built for a larger one; then a real round.
// (amortised "give memory back after N small resets" decisions, counters of consecutive resets)

#[derive(Clone, Debug, PartialEq, Eq, Hash, Serialize, Deserialize)]
pub struct Streak {
    pub n: u32,
    /// configurations the resets cycle through; the LAST reset of the streak uses the last entry
    pub cfgs: Vec<(usize, usize, usize)>,
    /// 0 = no rounds inside the streak, x = a cheap complete round after every x-th reset
    pub round_every: u8,
    pub recv: gen::RecvSpec,
    pub seed: u64,
    /// 0: every step is a reset; 1: every step is into_parts -> new(Some(work)) of the next family in the cycle
    /// default, high, low (engine kept); 2: resets and such recycles alternate. (ReedSolomon* has no into_parts: resets.)
    #[serde(default)]
    pub recycle: u8,
    /// failing calls inside the streak: 0 none; 1 every step is preceded by an add of a shard with a wrong length;
    /// 2 every step is preceded by a reset with an odd shard size; 3 both
    #[serde(default)]
    pub fails: u8,
}

#[derive(Clone, Debug, PartialEq, Eq, Hash, Serialize, Deserialize)]
pub struct StreakCase {
    pub dec: bool,
    pub kind: Kind,
    pub eng: Eng,
    pub init: (usize, usize, usize),
    pub streaks: Vec<Streak>,
}

pub fn streak_strategy(_t: Tier) -> BoxedStrategy<StreakCase> {
    let small_cfg = || {
        (
            prop_oneof![6 => 1usize..=6, 2 => 1usize..=40, 1 => (0u32..=5, 0usize..3).prop_map(|(a, d)| ((1usize << a) + d).saturating_sub(1).max(1))],
            prop_oneof![6 => 1usize..=6, 2 => 1usize..=40, 1 => (0u32..=5, 0usize..3).prop_map(|(a, d)| ((1usize << a) + d).saturating_sub(1).max(1))],
            prop_oneof![3 => Just(2usize), 2 => Just(64), 2 => Just(66), 1 => Just(130), 1 => (1usize..=512).prop_map(|h| h * 2)],
        )
    };
    let init_cfg = prop_oneof![
        1 => small_cfg(),
        2 => (1usize..=200, 1usize..=200, prop_oneof![Just(2usize), Just(64), Just(192), Just(2048), (1usize..=2048).prop_map(|h| h * 2)]),
    ];
    let n = prop_oneof![
        3 => 0u32..=3,
        6 => 1u32..=300,
        4 => (4u32..=8, 0u32..5).prop_map(|(a, d)| (1u32 << a) + d - 2),
    ];
    let streak = (n, prop::collection::vec(small_cfg(), 1..=3), prop_oneof![3 => Just(0u8), 1 => Just(1u8), 1 => 2u8..=9], gen::recv_spec(), any::<u64>(), prop_oneof![4 => Just(0u8), 1 => Just(1u8), 1 => Just(2u8)], prop_oneof![5 => Just(0u8), 1 => Just(1u8), 1 => Just(2u8), 1 => Just(3u8)])
        .prop_map(|(n, cfgs, round_every, recv, seed, recycle, fails)| Streak { n, cfgs, round_every, recv, seed, recycle, fails });
    (any::<bool>(), gen::kind_any()).prop_flat_map(move |(dec, kind)| {
        (any::<u8>(), init_cfg.clone(), prop::collection::vec(streak.clone(), 1..=4)).prop_map(move |(eraw, init, streaks)| {
            let fast: Vec<Eng> = [Eng::NoSimd, Eng::Ssse3, Eng::Avx2, Eng::Default].iter().copied().filter(|e| e.available()).collect();
            let eng = if kind == Kind::Rs { Eng::Default } else { fast[(eraw as usize * fast.len()) >> 8] };
            StreakCase { dec, kind, eng, init, streaks }
        })
    })
    .boxed()
}

fn check_streak(c: &StreakCase, st: &mut Stats) -> CheckResult {
    run_streak(c, st, "reset_streaks", false)
}

/// `truthful`: (used by C06) every call of the real rounds is valid and complete, so it must succeed
pub fn run_streak(c: &StreakCase, st: &mut Stats, part: &str, truthful: bool) -> CheckResult {
    let mut cur = c.init;
    let mut kind = c.kind;
    let mut obj = Obj::make(c.dec, kind, c.eng, Cfg { k: cur.0, r: cur.1, b: cur.2 }).map_err(|e| format!("construction failed: {e:?}"))?;
    let mut resets = 0u64;
    let mut recycles = 0u64;
    let mut longest = 0u32;
    let mut changed_at_end = false;
    for s in &c.streaks {
        let m = s.cfgs.len();
        for i in 0..s.n {
            // the cycle is aligned so that the last reset of the streak lands on the last entry
            let cfg = s.cfgs[(i as usize + m - (s.n as usize % m)) % m];
            if s.fails & 1 != 0 {
                let out = obj.apply(&Call::AddO(0, vec![1u8; cur.2 + 2]))?;
                ensure!(!out.is_ok(), "step #{resets}: a shard of {} bytes was accepted by an object configured for {} bytes", cur.2 + 2, cur.2);
            }
            if s.fails & 2 != 0 {
                let out = obj.apply(&Call::Reset(cfg.0, cfg.1, cfg.2 + 1))?;
                ensure!(!out.is_ok(), "step #{resets}: reset with the odd shard size {} succeeded", cfg.2 + 1);
            }
            if kind != Kind::Rs && (s.recycle == 1 || (s.recycle == 2 && i % 2 == 1)) {
                let next = match kind {
                    Kind::Default => Kind::High,
                    Kind::High => Kind::Low,
                    _ => Kind::Default,
                };
                obj = match crate::runner::no_panic(|| obj.recycle(next, c.eng, Cfg { k: cfg.0, r: cfg.1, b: cfg.2 })) {
                    Ok(Ok(o)) => o,
                    Ok(Err(e)) => fail!("step #{resets}: new(Some(work)) of the {} family with the supported configuration {cfg:?} failed: {e:?}", next.name()),
                    Err(p) => fail!("step #{resets}: new(Some(work)) {p}"),
                };
                kind = next;
                recycles += 1;
            } else {
                let out = obj.apply(&Call::Reset(cfg.0, cfg.1, cfg.2))?;
                ensure!(out.is_ok(), "reset #{resets} of the object to the supported configuration {cfg:?} failed: {}", out.brief());
            }
            if i + 1 == s.n && cfg != cur {
                changed_at_end = true;
            }
            cur = cfg;
            resets += 1;
            if s.round_every > 0 && i % s.round_every as u32 == 0 {
                let (k, _r, b) = cur;
                let cheap = gen::DataSpec { mode: 0, seed: 1 }.expand(k, b);
                for (j, d) in cheap.into_iter().enumerate() {
                    let out = obj.apply(&Call::AddO(j, d))?;
                    ensure!(out.is_ok(), "after {resets} resets: add_original({j}) rejected on {cur:?}: {}", out.brief());
                }
                let out = obj.apply(&Call::Finish { read: false })?;
                ensure!(out.is_ok(), "after {resets} resets: {} failed on {cur:?}: {}", if c.dec { "decode" } else { "encode" }, out.brief());
            }
        }
        longest = longest.max(s.n);
        // the real round, on the configuration the streak ended with
        let (k, r, b) = cur;
        let data = gen::DataSpec { mode: (s.seed % 2) as u8 * 5, seed: s.seed }.expand(k, b);
        let mut calls = Vec::new();
        let mut given = Vec::new();
        if c.dec {
            let rec = encode_all(kind, c.eng, k, r, b, &data).map_err(|e| format!("encode failed: {e:?}"))?;
            given = s.recv.arrival(k, r);
            for g in &given {
                calls.push(if g.rec { Call::AddR(g.idx, rec[g.idx].clone()) } else { Call::AddO(g.idx, data[g.idx].clone()) });
            }
        } else {
            for (i, d) in data.iter().enumerate() {
                calls.push(Call::AddO(i, d.clone()));
            }
        }
        calls.push(Call::Finish { read: true });
        let mut fresh = Obj::make(c.dec, kind, c.eng, Cfg { k, r, b }).map_err(|e| format!("construction failed: {e:?}"))?;
        let mut last = None;
        for call in &calls {
            let o = obj.apply(call)?;
            if truthful {
                ensure!(o.is_ok(), "after {resets} resets on one {} (the last streak: {} consecutive resets) the valid call {} on {k}+{r} x {b} reports {} (family {}, engine {})",
                    if c.dec { "decoder" } else { "encoder" }, s.n, brief(call), o.brief(), kind.name(), c.eng.name());
                last = Some(o);
                continue;
            }
            let of = fresh.apply(call)?;
            if o != of {
                fail!(
                    "after {resets} resets on one {} (the last streak: {} consecutive resets): {} gives {} but a fresh object gives {} (family {}, engine {}, {k}+{r} x {b})",
                    if c.dec { "decoder" } else { "encoder" }, s.n, brief(call), o.brief(), of.brief(), kind.name(), c.eng.name()
                );
            }
            last = Some(o);
        }
        if let Some(Outcome::Dec(Ok(Some(m)))) = &last {
            crate::props::c01::check_restored(k, b, &given, &data, m)?;
        }
    }
    st.classf("subject", if c.dec { "decoder" } else { "encoder" });
    st.classf("longest_streak_log2", 32 - longest.leading_zeros());
    st.classf("geometry_changed_by_last_reset", changed_at_end);
    st.classf("recycles_log2", 64 - recycles.leading_zeros());
    st.classf("streak_with_failing_calls", c.streaks.iter().any(|s| s.fails != 0 && s.n >= 16));
    if longest >= 16 {
        st.nontrivial_case(part, c);
    }
    Ok(())
}
