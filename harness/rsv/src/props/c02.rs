//! C02 - recovery shards are one fixed scaled-Cauchy Reed-Solomon code over GF(2^16).

use crate::engines::*;
use crate::gen::{self, Cfg, DataSpec, Xs};
use crate::props::PropDef;
use crate::refmodel::{self, GenMatrix};
use crate::runner::{CheckResult, GenPart, PartDyn, Stats, Tier};
use crate::{ensure, fail};
use proptest::prelude::*;
use serde::{Deserialize, Serialize};

pub fn def() -> PropDef {
    PropDef {
        id: "C02",
        rule: "generated: {high,low} rate x engine x (k,r) class x even shard size x data spec; oracle 1: recovery symbols == G*data with G the closed-form scaled Cauchy matrix evaluated by the independent field arithmetic (all slots when k*r*slots <= 4e6, else first/last/random slots); oracle 2: bytes == reed-solomon-16 0.1.0 for sizes that are multiples of 64; purity: same object encodes the same input twice to the same bytes. non-trivial: >=2 non-zero originals; distinct by full case",
        assumptions: &[
            "closed form re-derived by hand (Lagrange interpolation over the coset, derivative of a linearised polynomial is the constant W_m) and cross-checked by C13 (linearity) and the ancestor crate",
        ],
        parts,
    }
}

#[derive(Clone, Debug, Serialize, Deserialize)]
pub struct EncCase {
    pub high: bool,
    pub eng: Eng,
    pub cfg: Cfg,
    pub data: DataSpec,
}

fn enc_strategy(max_medium: usize, mult64: bool) -> BoxedStrategy<EncCase> {
    any::<bool>()
        .prop_flat_map(move |high| {
            let kind = if high { Kind::High } else { Kind::Low };
            (gen::cfg(kind, max_medium), gen::engine(), gen::data_spec(), 1usize..=4).prop_map(
                move |((mut cfg, _), eng, data, blocks)| {
                    if mult64 {
                        cfg.b = if cfg.k + cfg.r > 700 { (cfg.b / 64).max(1) * 64 } else { 64 * blocks };
                    }
                    EncCase { high, eng, cfg, data }
                },
            )
        })
        .boxed()
}

fn parts() -> Vec<Box<dyn PartDyn>> {
    vec![
        Box::new(GenPart {
            name: "closed_form",
            quick: 20_000,
            thorough: 150_000,
            shrink_iters: 400,
            strat: |t| enc_strategy(t.pick(400, 1500), false),
            check: check_closed_form,
        }),
        Box::new(GenPart {
            name: "ancestor",
            quick: 20_000,
            thorough: 100_000,
            shrink_iters: 400,
            strat: |t| enc_strategy(t.pick(1200, 3000), true),
            check: check_ancestor,
        }),
        Box::new(GenPart {
            name: "fullsize",
            quick: 8,
            thorough: 160,
            shrink_iters: 10,
            strat: fullsize_strategy,
            check: check_fullsize,
        }),
    ]
}

fn nonzero_originals(data: &[Vec<u8>]) -> usize {
    data.iter().filter(|s| s.iter().any(|&b| b != 0)).count()
}

/// slots to compare for a configuration
fn select_slots(k: usize, r: usize, b: usize, seed: u64, budget: u64) -> (Vec<usize>, bool) {
    let n = refmodel::slots(b);
    if (k as u64) * (r as u64) * (n as u64) <= budget {
        ((0..n).collect(), true)
    } else {
        let mut rng = Xs::new(seed);
        let mut v = vec![0, n - 1];
        let per = ((budget / ((k * r) as u64).max(1)) as usize).clamp(1, 6);
        for _ in 0..per {
            v.push(rng.below(n));
        }
        v.sort_unstable();
        v.dedup();
        (v, false)
    }
}

fn compare_with_closed_form(c: &EncCase, rec: &[Vec<u8>], data: &[Vec<u8>], budget: u64, rows: Option<&[usize]>) -> CheckResult {
    let Cfg { k, r, b } = c.cfg;
    let gm = GenMatrix::new(k, r, c.high);
    let (sel, _all) = select_slots(k, r, b, c.data.seed, budget);
    let mut syms = vec![0u16; k];
    for &s in &sel {
        for i in 0..k {
            syms[i] = refmodel::slot_get(&data[i], s);
        }
        let all_rows: Vec<usize>;
        let rows_it: &[usize] = match rows {
            Some(x) => x,
            None => {
                all_rows = (0..r).collect();
                &all_rows
            }
        };
        for &j in rows_it {
            let want = gm.recovery_symbol(j, &syms);
            let got = refmodel::slot_get(&rec[j], s);
            if want != got {
                fail!(
                    "recovery shard {j}, slot {s}: crate gives symbol {got:#06x}, closed-form Cauchy code gives {want:#06x} ({} rate, k={k} r={r} b={b}, engine {})",
                    if c.high { "high" } else { "low" },
                    c.eng.name()
                );
            }
        }
    }
    Ok(())
}

fn classify(c: &EncCase, data: &[Vec<u8>], st: &mut Stats, part: &str) {
    let Cfg { k, r, b } = c.cfg;
    st.classf("rate", if c.high { "high" } else { "low" });
    st.classf("engine", c.eng.name());
    st.classf("chunks", gen::chunk_shape(k, r, c.high));
    st.classf("counts", gen::count_class(k, r));
    st.classf("size", gen::size_class(b));
    if nonzero_originals(data) >= 2 {
        st.nontrivial_case(part, c);
    }
}

fn check_closed_form(c: &EncCase, st: &mut Stats) -> CheckResult {
    let Cfg { k, r, b } = c.cfg;
    let kind = if c.high { Kind::High } else { Kind::Low };
    let data = c.data.expand(k, b);
    let mut enc = match make_enc(kind, c.eng, k, r, b, None) {
        Ok(e) => e,
        Err(e) => fail!("cannot construct encoder for supported configuration: {e:?}"),
    };
    let rec = match encode_on(&mut *enc, &data) {
        Ok(v) => v,
        Err(e) => fail!("encode failed: {e:?}"),
    };
    ensure!(rec.len() == r && rec.iter().all(|s| s.len() == b), "wrong number or size of recovery shards");
    compare_with_closed_form(c, &rec, &data, 4_000_000, None)?;
    // pure function: the same object, the same input, a second time
    let rec2 = match encode_on(&mut *enc, &data) {
        Ok(v) => v,
        Err(e) => fail!("second encode on the same object failed: {e:?}"),
    };
    ensure!(rec == rec2, "encoding the same input twice on one object gave different bytes");
    classify(c, &data, st, "closed_form");
    Ok(())
}

fn ancestor_encode(high: bool, k: usize, r: usize, b: usize, data: &[Vec<u8>]) -> Result<Vec<Vec<u8>>, String> {
    use reed_solomon_16::engine::NoSimd;
    use reed_solomon_16::rate::{HighRateEncoder, LowRateEncoder, RateEncoder};
    macro_rules! go {
        ($T:ty) => {{
            let mut enc = <$T>::new(k, r, b, NoSimd::new(), None).map_err(|e| format!("{e:?}"))?;
            for d in data {
                enc.add_original_shard(d).map_err(|e| format!("{e:?}"))?;
            }
            let res = enc.encode().map_err(|e| format!("{e:?}"))?;
            Ok(res.recovery_iter().map(|s| s.to_vec()).collect())
        }};
    }
    if high {
        go!(HighRateEncoder<NoSimd>)
    } else {
        go!(LowRateEncoder<NoSimd>)
    }
}

fn check_ancestor(c: &EncCase, st: &mut Stats) -> CheckResult {
    let Cfg { k, r, b } = c.cfg;
    ensure!(b % 64 == 0, "harness: ancestor case with b % 64 != 0");
    let kind = if c.high { Kind::High } else { Kind::Low };
    let data = c.data.expand(k, b);
    let rec = match encode_all(kind, c.eng, k, r, b, &data) {
        Ok(v) => v,
        Err(e) => fail!("encode failed: {e:?}"),
    };
    let anc = match ancestor_encode(c.high, k, r, b, &data) {
        Ok(v) => v,
        // the ancestor has the same envelope; if it refuses, that is a harness problem, not a violation
        Err(e) => {
            st.class("ancestor-refused");
            let _ = e;
            return Ok(());
        }
    };
    for j in 0..r {
        if rec[j] != anc[j] {
            let at = rec[j].iter().zip(&anc[j]).position(|(x, y)| x != y).unwrap();
            fail!(
                "recovery shard {j} differs from reed-solomon-16 0.1.0 at byte {at} ({} rate, k={k} r={r} b={b}, engine {})",
                if c.high { "high" } else { "low" },
                c.eng.name()
            );
        }
    }
    classify(c, &data, st, "ancestor");
    Ok(())
}

// ----------------------------------------------------------------------
// full-size configurations against the closed form, on a few slots and rows

#[derive(Clone, Debug, Serialize, Deserialize)]
pub struct FullCase {
    pub high: bool,
    pub eng: Eng,
    pub k: usize,
    pub r: usize,
    pub seed: u64,
}

fn fullsize_strategy(_t: Tier) -> BoxedStrategy<FullCase> {
    (any::<bool>(), any::<u8>(), 0usize..1000, any::<u64>())
        .prop_map(|(high, eraw, ci, seed)| {
            let kind = if high { Kind::High } else { Kind::Low };
            let corners = gen::envelope_corners(kind);
            let (k, r) = corners[ci % corners.len()];
            // Naive / emulated Neon are an order of magnitude slower at 65536 positions
            let fast = [Eng::NoSimd, Eng::Ssse3, Eng::Avx2, Eng::Default];
            let fast: Vec<Eng> = fast.iter().copied().filter(|e| e.available()).collect();
            let eng = fast[(eraw as usize * fast.len()) >> 8];
            FullCase { high, eng, k, r, seed }
        })
        .boxed()
}

fn check_fullsize(c: &FullCase, st: &mut Stats) -> CheckResult {
    let kind = if c.high { Kind::High } else { Kind::Low };
    let (k, r, b) = (c.k, c.r, 2usize);
    let data = DataSpec { mode: 0, seed: c.seed }.expand(k, b);
    let rec = match encode_all(kind, c.eng, k, r, b, &data) {
        Ok(v) => v,
        Err(e) => fail!("encode failed at envelope corner {k}:{r}: {e:?}"),
    };
    // rows: first, last, around chunk boundaries, random  (each row costs k look-ups)
    let mut rng = Xs::new(c.seed ^ 0xF011);
    let m = if c.high { r.next_power_of_two() } else { k.next_power_of_two() };
    let mut rows = vec![0, r - 1, r / 2];
    for x in [m.saturating_sub(1), m, m + 1, 2 * m, 2 * m + 1] {
        if x < r {
            rows.push(x);
        }
    }
    let budget_rows = (40_000_000 / k.max(1)).clamp(4, 64);
    while rows.len() < budget_rows.min(r) {
        rows.push(rng.below(r));
    }
    rows.sort_unstable();
    rows.dedup();
    let ec = EncCase { high: c.high, eng: c.eng, cfg: Cfg { k, r, b }, data: DataSpec { mode: 0, seed: c.seed } };
    compare_with_closed_form(&ec, &rec, &data, u64::MAX, Some(&rows))?;
    st.classf("rate", if c.high { "high" } else { "low" });
    st.classf("engine", c.eng.name());
    st.classf("corner", format!("{k}:{r}"));
    st.nontrivial_case("fullsize", c);
    Ok(())
}
