//! C04 - every even shard size works and symbol slots never interact.

use crate::engines::*;
use crate::gen::{self, Cfg, DataSpec, RecvSpec, Xs};
use crate::hooks::PoisonGuard;
use crate::props::PropDef;
use crate::refmodel::{slot_get, slots};
use crate::runner::{CheckResult, GenPart, PartDyn, Stats, Tier};
use crate::{ensure, fail};
use proptest::prelude::*;
use serde::{Deserialize, Serialize};

pub fn def() -> PropDef {
    PropDef {
        id: "C04",
        rule: "generated: even shard size 2..330 (all tails, plus multi-block sizes up to 80 KiB) x small/pow2-edge configuration (one case in five: any count class up to thousands of shards, with shards up to ~2 KiB, i.e. many AND long) x codec family x engine x data x received set; half of the cases run on a reused object whose retained working memory was poisoned (padding lanes then hold noise); a third of those warm-ups keep counts and block count and differ only in the tail length. oracle: every output has exactly the shard size; for all slots (size<=66) or sampled slots, coding the 2-byte shards made of that slot alone (documented byte placement) gives exactly that slot of the big-shard outputs, for encode and decode. non-trivial: size%64 != 0 (tail) and at least one original restored; distinct by full case",
        assumptions: &["poison only overwrites bytes that survive a resize (real stale bytes)"],
        parts,
    }
}

#[derive(Clone, Debug, Serialize, Deserialize)]
pub struct SlotCase {
    pub kind: Kind,
    pub eng: Eng,
    pub cfg: Cfg,
    pub data: DataSpec,
    pub recv: RecvSpec,
    pub poison: bool,
}

fn strategy(t: Tier) -> BoxedStrategy<SlotCase> {
    gen::kind_any()
        .prop_flat_map(move |kind| {
            let counts = prop_oneof![
                // all count classes of the other checks, up to thousands of shards (several chunks of >= 1024 shards)
                2 => gen::counts(kind, t.pick(1000, 2000)).prop_map(|(k, r, _)| (k, r)),
                3 => (1usize..=8, 1usize..=8),
                3 => (1usize..=40, 1usize..=40),
                2 => ((0u32..=5, 0usize..3), (0u32..=5, 0usize..3)).prop_map(|((a, d), (b, e))| {
                    (((1usize << a) + d).saturating_sub(1).max(1), ((1usize << b) + e).saturating_sub(1).max(1))
                }),
            ];
            let size = prop_oneof![
                6 => (1usize..=165).prop_map(|h| h * 2),
                2 => (0usize..gen::SIZES.len()).prop_map(|i| gen::SIZES[i]),
                1 => (166usize..=520).prop_map(|h| h * 2),
                // long shards: tens of KiB, every residue mod 64 (blocked kernels, size thresholds)
                1 => (521usize..=40000).prop_map(|h| h * 2),
            ];
            (counts, size, gen::engine_for(kind), gen::data_spec(), gen::recv_spec(), any::<bool>()).prop_map(
                move |((k, r), b, eng, data, recv, poison)| {
                    // long shards only with few of them; hundreds to thousands of shards: up to ~2 KiB, 8 MiB in total
                    let b = if k + r > 100 {
                        (2 + b % 2200 / 2 * 2).min((8usize << 20) / (k + r) / 2 * 2).max(2)
                    } else if b > 1040 && k + r > 24 {
                        2 + b % 1040 / 2 * 2
                    } else {
                        b
                    };
                    SlotCase { kind, eng, cfg: Cfg { k, r, b }, data, recv, poison }
                },
            )
        })
        .boxed()
}

fn parts() -> Vec<Box<dyn PartDyn>> {
    vec![Box::new(GenPart {
        name: "slots",
        quick: 12_000,
        thorough: 300_000,
        shrink_iters: 600,
        strat: strategy,
        check,
    })]
}

fn slot_shards(shards: &[Vec<u8>], s: usize) -> Vec<Vec<u8>> {
    shards
        .iter()
        .map(|sh| {
            let v = slot_get(sh, s);
            vec![v as u8, (v >> 8) as u8]
        })
        .collect()
}

fn check(c: &SlotCase, st: &mut Stats) -> CheckResult {
    let Cfg { k, r, b } = c.cfg;
    let data = c.data.expand(k, b);
    let given = c.recv.arrival(k, r);

    // big-shard coding, optionally on a reused object with poisoned retained memory
    let (rec, restored) = {
        let _guard;
        let (mut enc, mut dec);
        if c.poison {
            // warm-up with a larger configuration so that the target's whole buffer is "retained"
            // one warm-up in three keeps the counts and the number of 64-byte blocks and changes only the
            // tail length (e.g. 66 -> 70): the working space keeps its exact layout across the reset
            let (wk, wr, wb) = if (c.data.seed >> 1) % 3 == 0 {
                let lo = (b - 1) / 64 * 64 + 2;
                let cand = lo + 2 * ((c.data.seed >> 8) as usize % 32);
                (k, r, if cand != b { cand } else if b == lo { lo + 62 } else { lo })
            } else {
                (k + 3, r + 2, b + 64)
            };
            st.classf("warmup_same_layout_other_tail", (wk, wr) == (k, r));
            enc = make_enc(c.kind, c.eng, wk, wr, wb, None).map_err(|e| format!("warm-up encoder: {e:?}"))?;
            dec = make_dec(c.kind, c.eng, wk, wr, wb, None).map_err(|e| format!("warm-up decoder: {e:?}"))?;
            let wdata = DataSpec { mode: 0, seed: c.data.seed ^ 1 }.expand(wk, wb);
            let wrec = encode_on(&mut *enc, &wdata).map_err(|e| format!("warm-up encode: {e:?}"))?;
            let all: Vec<Given> = (0..wr.min(wk)).map(|i| Given { rec: true, idx: i }).chain((wr.min(wk)..wk).map(|i| Given { rec: false, idx: i })).collect();
            decode_on(&mut *dec, &all, &wdata, &wrec).map_err(|e| format!("warm-up decode: {e:?}"))?;
            _guard = Some(PoisonGuard::arm(c.data.seed));
            enc.reset(k, r, b).map_err(|e| format!("reset of encoder to supported configuration failed: {e:?}"))?;
            dec.reset(k, r, b).map_err(|e| format!("reset of decoder to supported configuration failed: {e:?}"))?;
        } else {
            _guard = None;
            enc = make_enc(c.kind, c.eng, k, r, b, None).map_err(|e| format!("encoder construction failed: {e:?}"))?;
            dec = make_dec(c.kind, c.eng, k, r, b, None).map_err(|e| format!("decoder construction failed: {e:?}"))?;
        }
        let rec = encode_on(&mut *enc, &data).map_err(|e| format!("encode failed: {e:?}"))?;
        let restored = decode_on(&mut *dec, &given, &data, &rec).map_err(|e| format!("decode failed: {e:?}"))?;
        (rec, restored)
    };

    ensure!(rec.len() == r, "{} recovery shards, expected {r}", rec.len());
    for (j, s) in rec.iter().enumerate() {
        ensure!(s.len() == b, "recovery shard {j} has {} bytes, shard size is {b}", s.len());
    }
    for (i, s) in &restored {
        ensure!(s.len() == b, "restored shard {i} has {} bytes, shard size is {b}", s.len());
    }

    // per-slot coding as independent 2-byte problems
    let n = slots(b);
    let sel: Vec<usize> = if b <= 66 {
        (0..n).collect()
    } else {
        let mut rng = Xs::new(c.data.seed ^ 0x5107);
        let full = b / 64;
        let mut v = vec![0, 31.min(n - 1), n - 1];
        if b % 64 != 0 {
            v.push(full * 32); // first slot of the tail block
            v.push((full * 32 + (b % 64) / 2 - 1).min(n - 1));
            if full > 0 {
                v.push(full * 32 - 1); // last slot of the last full block
            }
        }
        for _ in 0..5 {
            v.push(rng.below(n));
        }
        v.sort_unstable();
        v.dedup();
        v
    };
    for &s in &sel {
        let d2 = slot_shards(&data, s);
        let rec2 = encode_all(c.kind, c.eng, k, r, 2, &d2).map_err(|e| format!("2-byte encode failed: {e:?}"))?;
        for j in 0..r {
            let want = rec2[j][0] as u16 | (rec2[j][1] as u16) << 8;
            let got = slot_get(&rec[j], s);
            if want != got {
                fail!("slot {s} of recovery shard {j}: {got:#06x} when coded inside {b}-byte shards, {want:#06x} when the slot is coded alone as 2-byte shards");
            }
        }
        let res2 = decode_all(c.kind, c.eng, k, r, 2, &given, &d2, &rec2).map_err(|e| format!("2-byte decode failed: {e:?}"))?;
        ensure!(res2.len() == restored.len(), "2-byte decode restores {} shards, big decode {}", res2.len(), restored.len());
        for (i, sh2) in &res2 {
            let want = sh2[0] as u16 | (sh2[1] as u16) << 8;
            let Some(big) = restored.get(i) else {
                fail!("original {i} restored in the 2-byte problem but not in the {b}-byte problem");
            };
            let got = slot_get(big, s);
            if want != got {
                fail!("slot {s} of restored original {i}: {got:#06x} inside {b}-byte shards, {want:#06x} when the slot is coded alone");
            }
        }
    }
    // and the restored shards are the originals (ties the slot view to the real data)
    crate::props::c01::check_restored(k, b, &given, &data, &restored)?;

    st.classf("kind", c.kind.name());
    st.classf("engine", c.eng.name());
    st.classf("size", gen::size_class(b));
    st.classf("counts", gen::count_class(k, r));
    st.classf("many_and_long", k + r > 700 && b > 512);
    st.classf("tail_bytes", if b % 64 == 0 { "0".to_string() } else { format!("{}", ((b % 64) / 8) * 8) });
    st.classf("poison", c.poison);
    if b % 64 != 0 && !restored.is_empty() {
        st.nontrivial_case("slots", c);
    }
    Ok(())
}
