//! C06 - invalid use yields a truthful documented Error; valid use never fails; no panics.

use crate::engines::*;
use crate::gen::{self, Xs};
use crate::model::*;
use crate::props::PropDef;
use crate::runner::{no_panic, CheckResult, GenPart, PartDyn, Stats, Tier};
use crate::{ensure, fail};
use proptest::prelude::*;
use serde::{Deserialize, Serialize};

pub fn def() -> PropDef {
    PropDef {
        id: "C06",
        rule: "generated call sequences on every codec family x engine, encoder and decoder, and one-shot calls; arguments from pools that include 0, 1, 2^a+-1, 65535..65537, 2^32+-1, usize::MAX-1, usize::MAX and random values for counts and indexes, and 0/1/odd/huge for sizes and shard lengths; object states reached by generated prefixes (valid adds, failing adds, resets). oracle: executable model of the documented preconditions giving the set V of truthful errors per call: V empty => Ok; V non-empty => Err(e) with e in V; any unwind is a violation. Even sizes > 4096 are only passed to allocating calls together with unsupported counts (allocation failure is outside the property); validate(), which allocates nothing, gets every size of the pool with supported counts too. part after_reset_streaks: objects that went through streaks of up to 300 consecutive resets (see C05 reset_streaks) must accept every valid call of a complete round (V empty => Ok). non-trivial: call with V non-empty on an object that already holds >=1 shard, or >=2 simultaneous violations, or an argument >= 2^32; distinct by full case",
        assumptions: &[
            "built with overflow checks and debug assertions on (the arithmetic of a dev build); thorough repeats the cases in a second build with wrapping arithmetic",
            "NotEnoughShards / TooFewOriginalShards counts are accepted anywhere between the number of usable and the number of given shards for one-shot calls",
        ],
        parts,
    }
}

fn parts() -> Vec<Box<dyn PartDyn>> {
    vec![
        Box::new(GenPart { name: "object", quick: 60_000, thorough: 1_500_000, shrink_iters: 1500, strat: obj_strategy, check: check_obj }),
        Box::new(GenPart { name: "static", quick: 60_000, thorough: 1_500_000, shrink_iters: 300, strat: static_strategy, check: check_static }),
        Box::new(GenPart { name: "after_reset_streaks", quick: 4_000, thorough: 80_000, shrink_iters: 200, strat: crate::props::c05::streak_strategy, check: |c, st| crate::props::c05::run_streak(c, st, "after_reset_streaks", true) }),
        Box::new(GenPart { name: "oneshot", quick: 60_000, thorough: 1_500_000, shrink_iters: 1500, strat: oneshot_strategy, check: check_oneshot }),
    ]
}

// ----------------------------------------------------------------------
// pools

pub fn count_pool() -> BoxedStrategy<usize> {
    prop_oneof![
        4 => 1usize..=8,
        3 => 1usize..=200,
        1 => Just(0usize),
        2 => (0u32..=16, 0usize..3).prop_map(|(a, d)| ((1usize << a) + d).saturating_sub(1)),
        1 => prop_oneof![Just(65535usize), Just(65536), Just(65537), Just(32768), Just(32769), Just(61440), Just(4096), Just(4097)],
        1 => prop_oneof![Just((1usize << 32) - 1), Just(1usize << 32), Just((1usize << 32) + 1), Just(usize::MAX - 1), Just(usize::MAX), Just(usize::MAX / 2 + 1)],
        1 => 0usize..=70000,
    ]
    .boxed()
}

pub fn size_pool() -> BoxedStrategy<usize> {
    prop_oneof![
        6 => prop_oneof![Just(2usize), Just(4), Just(62), Just(64), Just(66), Just(128), Just(130)],
        2 => (1usize..=200).prop_map(|h| h * 2),
        2 => prop_oneof![Just(0usize), Just(1), Just(3), Just(63), Just(65), Just(127)],
        1 => prop_oneof![Just(usize::MAX), Just(usize::MAX - 1), Just(usize::MAX - 61), Just(usize::MAX - 63), Just(usize::MAX - 127), Just(1usize << 40), Just((1usize << 40) + 1), Just(1usize << 63), Just((1usize << 63) + 2), Just((1usize << 32) - 2), Just(100_001usize)],
    ]
    .boxed()
}

/// keeps supported configurations allocatable: bounds the shard size on the Ok side only
fn tame(kind: Kind, k: usize, r: usize, b: usize) -> usize {
    if kind.env(k, r) && !bad_size(b) {
        let positions = k.max(r).next_power_of_two().max(1) * 2;
        let cap = if positions > 8192 { 64 } else if positions > 512 { 256 } else { 4096 };
        if b > cap {
            return (b % cap) / 2 * 2 + 2;
        }
    }
    b
}

#[derive(Clone, Copy, Debug, PartialEq, Eq, Hash, Serialize, Deserialize)]
pub enum LenSel {
    Exact,
    Plus(usize),
    Minus(usize),
    Abs(usize),
}

impl LenSel {
    pub fn len(&self, b: usize) -> usize {
        let l = match *self {
            LenSel::Exact => b,
            LenSel::Plus(d) => b.saturating_add(d),
            LenSel::Minus(d) => b.saturating_sub(d),
            LenSel::Abs(l) => l,
        };
        l.min(b.max(10_000) + 4) // shards are real byte vectors
    }
}

pub fn len_sel() -> BoxedStrategy<LenSel> {
    prop_oneof![
        8 => Just(LenSel::Exact),
        1 => (1usize..=2).prop_map(LenSel::Plus),
        1 => (1usize..=2).prop_map(LenSel::Minus),
        1 => prop_oneof![Just(0usize), Just(1), Just(2), Just(64), Just(63), Just(5000)].prop_map(LenSel::Abs),
    ]
    .boxed()
}

#[derive(Clone, Copy, Debug, PartialEq, Eq, Hash, Serialize, Deserialize)]
pub enum IdxSel {
    /// a not yet used in-range index (falls back to any in-range index)
    Fresh(u16),
    /// an already used index (falls back to Fresh)
    Used(u16),
    /// count + d
    AtCount(usize),
    Abs(usize),
}

pub fn idx_sel() -> BoxedStrategy<IdxSel> {
    prop_oneof![
        8 => any::<u16>().prop_map(IdxSel::Fresh),
        2 => any::<u16>().prop_map(IdxSel::Used),
        1 => (0usize..=2).prop_map(IdxSel::AtCount),
        2 => prop_oneof![
            Just(65535usize), Just(65536), Just(1usize << 32), Just((1usize << 32) + 7),
            Just(usize::MAX - 1), Just(usize::MAX), Just(usize::MAX / 2), Just(usize::MAX - 65536)
        ].prop_map(IdxSel::Abs),
    ]
    .boxed()
}

fn resolve_idx(sel: IdxSel, count: usize, used: &std::collections::BTreeSet<usize>) -> usize {
    match sel {
        IdxSel::Fresh(raw) => {
            if count == 0 {
                return 0;
            }
            let start = gen::idx_map(raw, count - 1).min(count - 1);
            for d in 0..count.min(64) {
                let i = (start + d) % count;
                if !used.contains(&i) {
                    return i;
                }
            }
            start
        }
        IdxSel::Used(raw) => match used.iter().nth(raw as usize % used.len().max(1)) {
            Some(&i) => i,
            None => resolve_idx(IdxSel::Fresh(raw), count, used),
        },
        IdxSel::AtCount(d) => count.saturating_add(d),
        IdxSel::Abs(i) => i,
    }
}

// ----------------------------------------------------------------------
// object histories

#[derive(Clone, Debug, PartialEq, Eq, Hash, Serialize, Deserialize)]
pub enum C6Call {
    Reset { k: usize, r: usize, b: usize },
    Add { rec: bool, idx: IdxSel, len: LenSel },
    /// n valid adds (brings the object into deeper states cheaply)
    Fill { n: u8, rec_first: bool },
    Finish,
}

#[derive(Clone, Debug, PartialEq, Eq, Hash, Serialize, Deserialize)]
pub struct ObjCase {
    pub dec: bool,
    pub kind: Kind,
    pub eng: Eng,
    pub k: usize,
    pub r: usize,
    pub b: usize,
    pub calls: Vec<C6Call>,
}

fn cfg_args(kind: Kind) -> BoxedStrategy<(usize, usize, usize)> {
    prop_oneof![
        // mostly constructible
        6 => (1usize..=24, 1usize..=24, size_pool()),
        3 => (count_pool(), count_pool(), size_pool()),
    ]
    .prop_map(move |(k, r, b)| (k, r, tame(kind, k, r, b)))
    .boxed()
}

fn c6call(kind: Kind) -> BoxedStrategy<C6Call> {
    prop_oneof![
        2 => cfg_args(kind).prop_map(|(k, r, b)| C6Call::Reset { k, r, b }),
        8 => (any::<bool>(), idx_sel(), len_sel()).prop_map(|(rec, idx, len)| C6Call::Add { rec, idx, len }),
        3 => (1u8..=24, any::<bool>()).prop_map(|(n, rec_first)| C6Call::Fill { n, rec_first }),
        3 => Just(C6Call::Finish),
    ]
    .boxed()
}

fn obj_strategy(_t: Tier) -> BoxedStrategy<ObjCase> {
    (any::<bool>(), gen::kind_any())
        .prop_flat_map(|(dec, kind)| {
            (gen::engine_for(kind), cfg_args(kind), prop::collection::vec(c6call(kind), 1..=12))
                .prop_map(move |(eng, (k, r, b), calls)| ObjCase { dec, kind, eng, k, r, b, calls })
        })
        .boxed()
}

fn shard(len: usize, seed: u64) -> Vec<u8> {
    let mut v = vec![0u8; len];
    Xs::new(seed).fill(&mut v);
    v
}

pub fn check_obj(c: &ObjCase, st: &mut Stats) -> CheckResult {
    let hseed = crate::runner::hash_of(c);
    let truth = truth_config(c.kind, c.k, c.r, c.b);
    let made = no_panic(|| {
        if c.dec {
            make_dec(c.kind, c.eng, c.k, c.r, c.b, None).map(crate::history::Obj::Dec)
        } else {
            make_enc(c.kind, c.eng, c.k, c.r, c.b, None).map(crate::history::Obj::Enc)
        }
    })
    .map_err(|p| format!("new({}, {}, {}) {p}", c.k, c.r, c.b))?;
    judge(&format!("{}::new({}, {}, {})", c.kind.name(), c.k, c.r, c.b), &made.as_ref().map(|_| ()).map_err(|e| *e), &truth)?;
    let mut nontrivial = false;
    if truth.len() >= 2 || c.k >= 1 << 32 || c.r >= 1 << 32 || c.b >= 1 << 32 {
        nontrivial = true;
    }
    st.classf("new", if truth.is_empty() { "ok" } else { "err" });
    let Ok(mut obj) = made else {
        if nontrivial {
            st.nontrivial_key(hseed);
        }
        return Ok(());
    };
    let mut m = ObjModel::new(c.k, c.r, c.b);
    use crate::history::{Call, Outcome};

    let mut step = 0usize;
    let mut do_add = |obj: &mut crate::history::Obj, m: &mut ObjModel, rec: bool, idx: usize, len: usize, st: &mut Stats, nontrivial: &mut bool| -> CheckResult {
        step += 1;
        let bytes = shard(len, hseed ^ step as u64);
        let (truth, what, call) = if c.dec {
            let t = m.truth_dec_add(rec, idx, len);
            let w = format!("{}Decoder::add_{}_shard(index {idx}, {len} bytes) [k={} r={} b={}]", c.kind.name(), if rec { "recovery" } else { "original" }, m.k, m.r, m.b);
            (t, w, if rec { Call::AddR(idx, bytes) } else { Call::AddO(idx, bytes) })
        } else {
            let t = m.truth_enc_add(len);
            let w = format!("{}Encoder::add_original_shard({len} bytes) [k={} b={} already {}]", c.kind.name(), m.k, m.b, m.enc_count);
            (t, w, Call::AddO(idx, bytes))
        };
        let out = obj.apply(&call).map_err(|p| format!("{what} {p}"))?;
        let Outcome::Unit(res) = out else { fail!("harness: unexpected outcome") };
        judge(&what, &res, &truth)?;
        let held = m.enc_count + m.originals.len() + m.recovery.len();
        if !truth.is_empty() && (held > 0 || truth.len() >= 2 || idx >= 1 << 32) {
            *nontrivial = true;
        }
        st.classf("add", if truth.is_empty() { "ok".to_string() } else { format!("err{}", truth.len()) });
        if res.is_ok() {
            if c.dec {
                if rec { m.recovery.insert(idx); } else { m.originals.insert(idx); }
            } else {
                m.enc_count += 1;
            }
        }
        Ok(())
    };

    for call in &c.calls {
        match call {
            C6Call::Reset { k, r, b } => {
                let truth = truth_config(c.kind, *k, *r, *b);
                let what = format!("{}::reset({k}, {r}, {b})", c.kind.name());
                let out = obj.apply(&Call::Reset(*k, *r, *b)).map_err(|p| format!("{what} {p}"))?;
                let Outcome::Unit(res) = out else { fail!("harness: unexpected outcome") };
                judge(&what, &res, &truth)?;
                let held = m.enc_count + m.originals.len() + m.recovery.len();
                if !truth.is_empty() && (held > 0 || truth.len() >= 2) || *k >= 1 << 32 || *r >= 1 << 32 || *b >= 1 << 32 {
                    nontrivial = true;
                }
                st.classf("reset", if truth.is_empty() { "ok" } else { "err" });
                if res.is_ok() {
                    m = ObjModel::new(*k, *r, *b);
                }
            }
            C6Call::Add { rec, idx, len } => {
                let rec = *rec && c.dec;
                let (count, used) = if rec { (m.r, &m.recovery) } else { (m.k, &m.originals) };
                let i = resolve_idx(*idx, count, used);
                let l = len.len(m.b);
                do_add(&mut obj, &mut m, rec, i, l, st, &mut nontrivial)?;
            }
            C6Call::Fill { n, rec_first } => {
                for j in 0..*n as usize {
                    let rec = c.dec && (*rec_first ^ (j % 3 == 2));
                    let (count, used) = if rec { (m.r, &m.recovery) } else { (m.k, &m.originals) };
                    if c.dec && used.len() >= count {
                        continue;
                    }
                    if !c.dec && m.enc_count >= m.k {
                        break;
                    }
                    let i = resolve_idx(IdxSel::Fresh((j * 2741) as u16), count, used);
                    let b = m.b;
                    do_add(&mut obj, &mut m, rec, i, b, st, &mut nontrivial)?;
                }
            }
            C6Call::Finish => {
                let (truth, what) = if c.dec {
                    (m.truth_decode(), format!("{}Decoder::decode() [k={} holding {}+{}]", c.kind.name(), m.k, m.originals.len(), m.recovery.len()))
                } else {
                    (m.truth_encode(), format!("{}Encoder::encode() [k={} holding {}]", c.kind.name(), m.k, m.enc_count))
                };
                let out = obj.apply(&Call::Finish { read: true }).map_err(|p| format!("{what} {p}"))?;
                let res: Result<(), reed_solomon_simd::Error> = match &out {
                    Outcome::Enc(r) => r.as_ref().map(|_| ()).map_err(|e| *e),
                    Outcome::Dec(r) => r.as_ref().map(|_| ()).map_err(|e| *e),
                    _ => fail!("harness: unexpected outcome"),
                };
                judge(&what, &res, &truth)?;
                let held = m.enc_count + m.originals.len() + m.recovery.len();
                if !truth.is_empty() && held > 0 {
                    nontrivial = true;
                }
                st.classf("finish", if truth.is_empty() { "ok" } else { "err" });
                if res.is_ok() {
                    // output shape is part of "valid use works": right number of shards of the right size
                    match &out {
                        Outcome::Enc(Ok(Some(v))) => {
                            ensure!(v.len() == m.r && v.iter().all(|s| s.len() == m.b), "encode() returned {} shards, configuration has r={} b={}", v.len(), m.r, m.b);
                        }
                        Outcome::Dec(Ok(Some(mm))) => {
                            ensure!(mm.len() == m.k - m.originals.len(), "decode() restored {} shards, {} originals were missing", mm.len(), m.k - m.originals.len());
                        }
                        _ => {}
                    }
                    m.clear_round();
                }
            }
        }
    }
    st.classf("subject", if c.dec { "decoder" } else { "encoder" });
    st.classf("kind", c.kind.name());
    if nontrivial {
        st.nontrivial_key(hseed);
    }
    Ok(())
}

// ----------------------------------------------------------------------
// static functions: supports / validate / Rate::encoder / Rate::decoder

#[derive(Clone, Debug, PartialEq, Eq, Hash, Serialize, Deserialize)]
pub struct StaticCase {
    pub kind: Kind,
    pub eng: Eng,
    pub layer: Layer,
    pub k: usize,
    pub r: usize,
    pub b: usize,
    /// shard size for the calls that never allocate (validate): the generated value, not bounded on the Ok side
    #[serde(default)]
    pub b_raw: Option<usize>,
}

fn static_strategy(_t: Tier) -> BoxedStrategy<StaticCase> {
    gen::kind_any()
        .prop_flat_map(|kind| {
            (
                gen::engine_for(kind),
                prop_oneof![Just(Layer::Rate), Just(Layer::Encoder), Just(Layer::Decoder)],
                count_pool(),
                count_pool(),
                size_pool(),
            )
                .prop_map(move |(eng, layer, k, r, b)| StaticCase { kind, eng, layer, k, r, b: tame(kind, k, r, b), b_raw: Some(b) })
        })
        .boxed()
}

fn check_static(c: &StaticCase, st: &mut Stats) -> CheckResult {
    let want = c.kind.env(c.k, c.r);
    let got = no_panic(|| supports(c.kind, c.eng, c.layer, c.k, c.r)).map_err(|p| format!("supports({}, {}) {p}", c.k, c.r))?;
    ensure!(got == want, "{} {:?}::supports({}, {}) = {got}, documented envelope says {want}", c.kind.name(), c.layer, c.k, c.r);
    // validate() allocates nothing: any shard size, however large (even sizes up to usize::MAX - 1 are valid)
    let bv = c.b_raw.unwrap_or(c.b);
    let truth_v = truth_config(c.kind, c.k, c.r, bv);
    if let Some(res) = no_panic(|| validate(c.kind, c.eng, c.layer, c.k, c.r, bv)).map_err(|p| format!("validate({}, {}, {}) {p}", c.k, c.r, bv))? {
        judge(&format!("{} {:?}::validate({}, {}, {})", c.kind.name(), c.layer, c.k, c.r, bv), &res, &truth_v)?;
    }
    let truth = truth_config(c.kind, c.k, c.r, c.b);
    // constructors through the Rate trait (cheap configurations only on the Ok side)
    if !truth.is_empty() || c.k + c.r <= 4096 {
        if let Some(res) = no_panic(|| rate_encoder_ok(c.kind, c.eng, c.k, c.r, c.b)).map_err(|p| format!("Rate::encoder({}, {}, {}) {p}", c.k, c.r, c.b))? {
            judge(&format!("{}Rate::encoder({}, {}, {})", c.kind.name(), c.k, c.r, c.b), &res, &truth)?;
        }
        if let Some(res) = no_panic(|| rate_decoder_ok(c.kind, c.eng, c.k, c.r, c.b)).map_err(|p| format!("Rate::decoder({}, {}, {}) {p}", c.k, c.r, c.b))? {
            judge(&format!("{}Rate::decoder({}, {}, {})", c.kind.name(), c.k, c.r, c.b), &res, &truth)?;
        }
    }
    st.classf("kind", c.kind.name());
    st.classf("violations", truth.len());
    st.classf("validate_ok_with_size_ge_2^32", truth_v.is_empty() && bv >= 1 << 32);
    if truth.len() >= 2 || c.k >= 1 << 32 || c.r >= 1 << 32 || c.b >= 1 << 32 || bv >= 1 << 32 {
        st.nontrivial_case("static", c);
    }
    Ok(())
}

// ----------------------------------------------------------------------
// one-shot functions

#[derive(Clone, Debug, PartialEq, Eq, Hash, Serialize, Deserialize)]
pub enum OneShot {
    Encode { k: usize, r: usize, b: usize, lens: Vec<LenSel> },
    Decode { k: usize, r: usize, b: usize, originals: Vec<(IdxSel, LenSel)>, recovery: Vec<(IdxSel, LenSel)> },
}

fn small_count() -> BoxedStrategy<usize> {
    // small counts, counts of tens to a few hundred given COMPLETELY (every value and the power-of-two edges), and the extreme pool
    prop_oneof![14 => 1usize..=12, 2 => 13usize..=140, 1 => 141usize..=6000, 1 => (4u32..=8, 0usize..3).prop_map(|(a, d)| (1usize << a) + d - 1), 1 => count_pool()].boxed()
}

pub fn oneshot_strategy(_t: Tier) -> BoxedStrategy<OneShot> {
    let enc = (small_count(), small_count(), size_pool(), 0u8..4, any::<u8>(), prop::collection::vec(len_sel(), 0..4)).prop_map(
        |(k, r, b, nsel, nraw, extra)| {
            // rarely: shards of 1..3 MiB (size-dependent paths of the one-shot functions), few of them
            let b = if nraw % 32 == 7 && k <= 4 && r <= 4 { (1 << 20) + (nraw as usize * 7919 % (1 << 21)) / 2 * 2 } else { tame(Kind::Rs, k, r, b).min(4096) };
            // number of shards: exactly k (mostly), k-1, k+1, 0, random
            // (thousands of shards only when they are a few bytes each)
            let kk = k.min(if b <= 8 { 6000 } else { 320 });
            let n = match nsel {
                0 | 1 => kk,
                2 => kk.saturating_sub(1 + nraw as usize % 2),
                _ => kk + 1 + nraw as usize % 2,
            };
            let mut lens = vec![LenSel::Exact; n];
            for (j, l) in extra.into_iter().enumerate() {
                if !lens.is_empty() {
                    let at = (nraw as usize + j * 7) % lens.len();
                    lens[at] = l;
                }
            }
            OneShot::Encode { k, r, b, lens }
        },
    );
    // decode: a valid, sufficient base input with 0..=2 injected faults
    let fault = (0u8..8, any::<u16>(), any::<bool>(), idx_sel(), len_sel());
    let dec = (
        small_count(),
        small_count(),
        size_pool(),
        (0u8..5, any::<u16>(), any::<u16>()),
        prop::collection::vec(fault, 0..=2),
    )
        .prop_map(|(k, r, b, (shape, raw_o, raw_s), faults)| {
            // 1 in 16: recovery_count on the 2-wide band around the envelope boundary for this original_count
            // (unsupported pairs whose sum still fits), mostly with a complete set of originals
            let (r, shape) = if raw_o % 32 == 5 && k >= 1 && k <= 64 {
                let rb = crate::props::c08::r_bound(Kind::Rs, k as u128) as usize;
                ((rb + (raw_o as usize >> 4) % 4).saturating_sub(1).max(1), if raw_s % 4 != 0 { 2 } else { shape })
            } else {
                (r, shape)
            };
            let b = if raw_s % 32 == 7 && k <= 4 && r <= 4 { (1 << 20) + (raw_s as usize * 7919 % (1 << 21)) / 2 * 2 } else { tame(Kind::Rs, k, r, b).min(4096) };
            let kk = k.min(if b <= 8 { 6000 } else { 320 });
            let rr = r.min(if b <= 8 { 6000 } else { 320 });
            // how many originals are given in the base input
            let n_o = match shape {
                0 => kk,                       // everything there (with or without recovery)
                1 => kk.saturating_sub(rr),    // maximum loss
                _ => gen::idx_map(raw_o, kk),
            };
            let need = kk - n_o.min(kk);
            let n_r = match shape {
                0 => if raw_s & 1 == 0 { 0 } else { gen::idx_map(raw_s, rr) },
                _ => (need + (raw_s as usize % 3) / 2).min(rr),
            };
            let mut originals: Vec<(IdxSel, LenSel)> =
                (0..n_o).map(|j| (IdxSel::Fresh((raw_o as usize + j * 9973) as u16), LenSel::Exact)).collect();
            let mut recovery: Vec<(IdxSel, LenSel)> =
                (0..n_r).map(|j| (IdxSel::Fresh((raw_s as usize + j * 7919) as u16), LenSel::Exact)).collect();
            for (kind, raw, on_rec, isel, lsel) in faults {
                let list = if on_rec { &mut recovery } else { &mut originals };
                match kind {
                    // replace an index
                    0 | 1 => {
                        if !list.is_empty() {
                            let at = raw as usize % list.len();
                            list[at].0 = isel;
                        }
                    }
                    // replace a length
                    2 | 3 => {
                        if !list.is_empty() {
                            let at = raw as usize % list.len();
                            list[at].1 = lsel;
                        }
                    }
                    // drop one shard
                    4 => {
                        if !list.is_empty() {
                            let at = raw as usize % list.len();
                            list.remove(at);
                        }
                    }
                    // drop several
                    5 => {
                        let keep = list.len() - (raw as usize % (list.len() + 1));
                        list.truncate(keep);
                    }
                    // add an extra shard
                    6 => list.push((isel, lsel)),
                    // no recovery at all
                    _ => recovery.clear(),
                }
            }
            OneShot::Decode { k, r, b, originals, recovery }
        });
    prop_oneof![2 => enc, 5 => dec].boxed()
}

/// resolves selectors into concrete (index, length) lists; "Fresh"/"Used" refer to the shards listed before
pub fn resolve_list(items: &[(IdxSel, LenSel)], count: usize, b: usize) -> Vec<(usize, usize)> {
    let mut used = std::collections::BTreeSet::new();
    let mut out = Vec::new();
    for (is, ls) in items {
        let i = resolve_idx(*is, count, &used);
        used.insert(i);
        out.push((i, ls.len(b)));
    }
    out
}

pub fn check_oneshot(c: &OneShot, st: &mut Stats) -> CheckResult {
    let hseed = crate::runner::hash_of(c);
    match c {
        OneShot::Encode { k, r, b, lens } => {
            let lens: Vec<usize> = lens.iter().map(|l| l.len(*b)).collect();
            let shards: Vec<Vec<u8>> = lens.iter().enumerate().map(|(i, &l)| shard(l, hseed ^ i as u64)).collect();
            let truth = truth_oneshot_encode(*k, *r, &lens);
            let what = format!("encode({k}, {r}, shards of lengths {lens:?})");
            let res = no_panic(|| match hseed % 3 {
                0 => reed_solomon_simd::encode(*k, *r, &shards),
                1 => {
                    let padded: Vec<(bool, &Vec<u8>)> = shards.iter().flat_map(|s| [(true, s), (false, s)]).collect();
                    reed_solomon_simd::encode(*k, *r, padded.iter().filter(|x| x.0).map(|x| x.1))
                }
                _ => {
                    let mut i = 0;
                    reed_solomon_simd::encode(*k, *r, std::iter::from_fn(|| {
                        i += 1;
                        shards.get(i - 1)
                    }))
                }
            })
            .map_err(|p| format!("{what} {p}"))?;
            judge(&what, &res, &truth)?;
            if let Ok(v) = &res {
                ensure!(v.len() == *r && v.iter().all(|s| s.len() == lens[0]), "encode returned {} shards for r={r}", v.len());
            }
            st.classf("encode", if truth.is_empty() { "ok".to_string() } else { format!("err{}", truth.len().min(4)) });
            if truth.len() >= 2 {
                st.nontrivial_key(hseed);
            }
        }
        OneShot::Decode { k, r, b, originals, recovery } => {
            let o = resolve_list(originals, *k, *b);
            let rv = resolve_list(recovery, *r, *b);
            let os: Vec<(usize, Vec<u8>)> = o.iter().enumerate().map(|(j, &(i, l))| (i, shard(l, hseed ^ j as u64))).collect();
            let rs: Vec<(usize, Vec<u8>)> = rv.iter().enumerate().map(|(j, &(i, l))| (i, shard(l, hseed ^ 0x8000 ^ j as u64))).collect();
            let truth = truth_oneshot_decode(*k, *r, &o, &rv);
            let what = format!("decode({k}, {r}, originals (index,len) {o:?}, recovery (index,len) {rv:?})");
            let res = no_panic(|| reed_solomon_simd::decode(*k, *r, os.iter().map(|(i, s)| (*i, s)), rs.iter().map(|(i, s)| (*i, s)))).map_err(|p| format!("{what} {p}"))?;
            if let Err(m) = judge(&what, &res, &truth) {
                let sig = if rv.is_empty() && res.is_ok() { Some("decode-no-recovery-ok-on-faulty-input".to_string()) } else { None };
                return Err(crate::runner::Fail { sig, msg: m });
            }
            if let Ok(map) = &res {
                let distinct: std::collections::BTreeSet<usize> = o.iter().map(|x| x.0).collect();
                ensure!(map.len() == *k - distinct.len(), "decode restored {} shards, {} originals were missing", map.len(), *k - distinct.len());
            }
            st.classf("decode", format!("{}{}", if rv.is_empty() { "norec-" } else { "" }, if truth.is_empty() { "ok".to_string() } else { format!("err{}", truth.len().min(4)) }));
            if truth.len() >= 2 || (rv.is_empty() && !truth.is_empty()) || (truth.is_empty() && !o.is_empty() && !rv.is_empty()) {
                st.nontrivial_key(hseed);
            }
        }
    }
    Ok(())
}
