//! C08 - supports() is exactly the documented envelope and constructors agree with it.

use crate::engines::*;
use crate::gen::{self};
use crate::model::*;
use crate::props::c01::{check_corner, CornerCase};
use crate::props::PropDef;
use crate::refmodel::{env_default, env_high, env_low};
use crate::runner::{no_panic, CheckResult, GenPart, PartDyn, Run, Stats, Tier};
use crate::{ensure, fail};
use proptest::prelude::*;
use serde::{Deserialize, Serialize};
use serde_json::{json, Value};
use std::sync::atomic::{AtomicBool, AtomicU64, Ordering};
use std::sync::Mutex;
use std::time::Instant;

pub fn def() -> PropDef {
    PropDef {
        id: "C08",
        rule: "part supports_exhaustive: every (original_count, recovery_count) in [0,65537]^2 for the default, high and low rate (3 x 4.3e9 evaluations, exhaustive) against the README envelope written as a definition, plus usize extremes; part layers: every supports() entry point of every family x engine x layer on the 2-wide band around every staircase step, both axes and a random sample; part agreement: generated (o,r,B) concentrated on the boundary: validate/new/reset/Rate::encoder/Rate::decoder succeed iff supported and B even and non-zero (validate, which allocates nothing, also for sizes up to usize::MAX - 1), with a truthful error otherwise; part corners: every staircase corner (and neighbours) of every family really encodes and decodes at maximum loss (half of the cases) or with k+1 / a uniform number / ALL k + r shards given. non-trivial: pairs within distance 1 of the envelope boundary; corners round-tripped",
        assumptions: &["the reference bound R(o) = max admissible r is read off the definition per n and re-verified against the literal definition on the whole boundary and a random sample"],
        parts,
    }
}

fn parts() -> Vec<Box<dyn PartDyn>> {
    vec![
        Box::new(Exhaustive),
        Box::new(GenPart { name: "layers", quick: 150_000, thorough: 3_000_000, shrink_iters: 200, strat: layers_strategy, check: check_layers }),
        Box::new(GenPart { name: "agreement", quick: 20_000, thorough: 500_000, shrink_iters: 200, strat: agreement_strategy, check: check_agreement }),
        Box::new(GenPart { name: "corners", quick: 160, thorough: 6_000, shrink_iters: 20, strat: corner_strategy, check: check_corner }),
    ]
}

// ----------------------------------------------------------------------
// reference bounds

/// max admissible r for a given o under the family's envelope (0 if none), straight from the definition
pub fn r_bound(kind: Kind, o: u128) -> u128 {
    if o < 1 {
        return 0;
    }
    let mut best = 0u128;
    for n in 0..=16u32 {
        let p = 1u128 << n;
        let low_clause = o <= p; // o is the power-of-two-bounded side, r <= 65536 - p
        let high_clause = o <= 65536 - p; // r is the bounded side, r <= p
        match kind {
            Kind::Low => {
                if low_clause {
                    best = best.max(65536 - p);
                }
            }
            Kind::High => {
                if high_clause {
                    best = best.max(p);
                }
            }
            _ => {
                if low_clause {
                    best = best.max(65536 - p);
                }
                if high_clause {
                    best = best.max(p);
                }
            }
        }
    }
    best
}

fn env_slow(kind: Kind, o: u128, r: u128) -> bool {
    match kind {
        Kind::High => env_high(o, r),
        Kind::Low => env_low(o, r),
        _ => env_default(o, r),
    }
}

fn crate_supports_nosimd(kind: Kind, o: usize, r: usize) -> bool {
    use reed_solomon_simd::engine::NoSimd;
    use reed_solomon_simd::rate::{DefaultRate, HighRate, LowRate, Rate};
    match kind {
        Kind::High => <HighRate<NoSimd> as Rate<NoSimd>>::supports(o, r),
        Kind::Low => <LowRate<NoSimd> as Rate<NoSimd>>::supports(o, r),
        _ => <DefaultRate<NoSimd> as Rate<NoSimd>>::supports(o, r),
    }
}

struct Exhaustive;

const LIMIT: usize = 65537;
const EXTREMES: [usize; 14] = [
    0, 1, 65535, 65536, 65537, 65538, (1 << 31) - 1, 1 << 31, (1 << 32) - 1, 1 << 32, (1 << 32) + 1, usize::MAX / 2 + 1, usize::MAX - 1, usize::MAX,
];

impl PartDyn for Exhaustive {
    fn name(&self) -> &'static str {
        "supports_exhaustive"
    }

    fn run(&self, run: &mut Run) {
        if run.failed() {
            return;
        }
        let t0 = Instant::now();
        let mut stats = Stats::default();
        let kinds = [Kind::Default, Kind::High, Kind::Low];
        // 1. bounds table re-verified against the literal definition: whole boundary + sample
        let mut bounds: Vec<Vec<u128>> = Vec::new();
        for &kind in &kinds {
            let b: Vec<u128> = (0..=LIMIT as u128).map(|o| r_bound(kind, o)).collect();
            for o in 0..=LIMIT as u128 {
                let rb = b[o as usize];
                for r in [0u128, 1, rb.saturating_sub(1), rb, rb + 1, rb + 2, 65536, 65537] {
                    let want = o >= 1 && r >= 1 && r <= rb;
                    if env_slow(kind, o, r) != want {
                        run.inconclusive.push(format!("harness: bound table disagrees with the definition at {kind:?} ({o},{r})"));
                        return;
                    }
                }
            }
            let mut rng = gen::Xs::new(run.seed ^ 0xC08);
            for _ in 0..200_000 {
                let o = rng.below(LIMIT + 1) as u128;
                let r = rng.below(LIMIT + 1) as u128;
                let want = o >= 1 && r >= 1 && r <= b[o as usize];
                if env_slow(kind, o, r) != want {
                    run.inconclusive.push(format!("harness: bound table disagrees with the definition at {kind:?} ({o},{r})"));
                    return;
                }
            }
            bounds.push(b);
        }
        // 2. exhaustive comparison
        let bad: Mutex<Option<(Kind, usize, usize, bool)>> = Mutex::new(None);
        let stop = AtomicBool::new(false);
        let evals = AtomicU64::new(0);
        let near = AtomicU64::new(0);
        let next = AtomicU64::new(0);
        let threads = run.threads.max(1);
        let res = no_panic(|| {
            std::thread::scope(|sc| {
                for _ in 0..threads {
                    sc.spawn(|| {
                        let mut local = 0u64;
                        loop {
                            let o = next.fetch_add(1, Ordering::Relaxed) as usize;
                            if o > LIMIT || stop.load(Ordering::Relaxed) {
                                break;
                            }
                            for (ki, &kind) in kinds.iter().enumerate() {
                                let rb = bounds[ki][o] as usize;
                                for r in 0..=LIMIT {
                                    let want = o >= 1 && r >= 1 && r <= rb;
                                    let got = crate_supports_nosimd(kind, o, r);
                                    if got != want {
                                        stop.store(true, Ordering::Relaxed);
                                        let mut b = bad.lock().unwrap();
                                        if b.is_none() {
                                            *b = Some((kind, o, r, got));
                                        }
                                        break;
                                    }
                                }
                                local += LIMIT as u64 + 1;
                            }
                        }
                        evals.fetch_add(local, Ordering::Relaxed);
                    });
                }
            });
        });
        if let Err(p) = res {
            run.record_failure(self.name(), json!({"note": "panic during exhaustive enumeration"}), p);
            return;
        }
        // boundary pairs (distance <= 1): counted as the non-trivial cases
        for (ki, &kind) in kinds.iter().enumerate() {
            for o in 0..=LIMIT {
                let rb = bounds[ki][o] as usize;
                for r in [rb.saturating_sub(1), rb, rb + 1] {
                    if r <= LIMIT {
                        stats.nontrivial_key(crate::runner::hash_of(&(kind, o, r)));
                        near.fetch_add(1, Ordering::Relaxed);
                    }
                }
            }
        }
        stats.evaluations = evals.load(Ordering::Relaxed);
        // 3. extremes: no panic, always unsupported beyond 65536
        for &kind in &kinds {
            for &o in &EXTREMES {
                for &r in &EXTREMES {
                    stats.evaluations += 1;
                    let want = env_slow(kind, o as u128, r as u128);
                    match no_panic(|| crate_supports_nosimd(kind, o, r)) {
                        Ok(got) if got == want => {}
                        Ok(got) => {
                            let mut b = bad.lock().unwrap();
                            if b.is_none() {
                                *b = Some((kind, o, r, got));
                            }
                        }
                        Err(p) => {
                            run.record_failure(self.name(), json!({"kind": kind, "o": o, "r": r}), format!("supports({o}, {r}) {p}"));
                            return;
                        }
                    }
                }
            }
        }
        stats.samples.push(json!({"kind": "Default", "o": 4096, "r": 61440, "expected": true}));
        stats.samples.push(json!({"kind": "High", "o": 61441, "r": 4096, "expected": false}));
        stats.samples.push(json!({"kind": "Low", "o": 32769, "r": 1, "expected": false}));
        stats.classes.insert("pairs_per_family".into(), (LIMIT as u64 + 1) * (LIMIT as u64 + 1));
        let failure = bad.lock().unwrap().take();
        run.record_part(self.name(), stats, failure.is_none(), "all (o,r) in [0,65537]^2 x {default, high, low}", t0);
        if let Some((kind, o, r, got)) = failure {
            run.record_failure(
                self.name(),
                json!({"kind": kind, "o": o, "r": r}),
                format!("{}Rate::supports({o}, {r}) = {got}, the documented envelope says {}", kind.name(), !got),
            );
        }
    }

    fn replay(&self, case: &Value) -> Result<(), String> {
        let kind: Kind = serde_json::from_value(case["kind"].clone()).map_err(|e| e.to_string())?;
        let o = case["o"].as_u64().ok_or("no o")? as usize;
        let r = case["r"].as_u64().ok_or("no r")? as usize;
        let want = env_slow(kind, o as u128, r as u128);
        let got = no_panic(|| crate_supports_nosimd(kind, o, r))?;
        if got == want {
            Ok(())
        } else {
            Err(format!("{}Rate::supports({o}, {r}) = {got}, the documented envelope says {want}", kind.name()))
        }
    }
}

// ----------------------------------------------------------------------
// every supports() entry point on the boundary band

#[derive(Clone, Debug, PartialEq, Eq, Hash, Serialize, Deserialize)]
pub struct LayerCase {
    pub kind: Kind,
    pub eng: Eng,
    pub layer: Layer,
    pub o: usize,
    pub r: usize,
}

/// (o, r) near the boundary of the family's envelope, near an axis, or anywhere
fn near_boundary(kind: Kind) -> BoxedStrategy<(usize, usize)> {
    let band = (0usize..=65537, 0usize..5, any::<bool>()).prop_map(move |(a, d, flip)| {
        // boundary point for o = a, offset by d-2; optionally mirrored (exercises the other axis)
        let rb = r_bound(kind, a as u128) as usize;
        let r = (rb + d).saturating_sub(2);
        if flip && kind != Kind::High && kind != Kind::Low {
            (r, a)
        } else {
            (a, r)
        }
    });
    let steps = (0u32..=16, 0usize..5, 0usize..5, any::<bool>()).prop_map(|(n, d1, d2, flip)| {
        let p = 1usize << n;
        let a = (p + d1).saturating_sub(2);
        let b = (65536 - p + d2).saturating_sub(2);
        if flip {
            (a, b)
        } else {
            (b, a)
        }
    });
    let axes = (0usize..=2, 0usize..=65537, any::<bool>()).prop_map(|(a, b, flip)| if flip { (a, b) } else { (b, a) });
    let anywhere = (0usize..=65537, 0usize..=65537);
    let huge = (crate::props::c06::count_pool(), crate::props::c06::count_pool());
    prop_oneof![6 => band, 6 => steps, 2 => axes, 2 => anywhere, 1 => huge].boxed()
}

fn layers_strategy(_t: Tier) -> BoxedStrategy<LayerCase> {
    gen::kind_any()
        .prop_flat_map(|kind| {
            (gen::engine_for(kind), prop_oneof![Just(Layer::Rate), Just(Layer::Encoder), Just(Layer::Decoder)], near_boundary(kind))
                .prop_map(move |(eng, layer, (o, r))| LayerCase { kind, eng, layer, o, r })
        })
        .boxed()
}

fn dist1(kind: Kind, o: usize, r: usize) -> bool {
    let w = env_slow(kind, o as u128, r as u128);
    for (do_, dr) in [(0i64, 1i64), (0, -1), (1, 0), (-1, 0)] {
        let (o2, r2) = (o as i64 + do_, r as i64 + dr);
        if o2 >= 0 && r2 >= 0 && env_slow(kind, o2 as u128, r2 as u128) != w {
            return true;
        }
    }
    false
}

fn check_layers(c: &LayerCase, st: &mut Stats) -> CheckResult {
    let want = env_slow(c.kind, c.o as u128, c.r as u128);
    let got = no_panic(|| supports(c.kind, c.eng, c.layer, c.o, c.r)).map_err(|p| format!("supports({}, {}) {p}", c.o, c.r))?;
    ensure!(
        got == want,
        "{} {:?}<{}>::supports({}, {}) = {got}, the documented envelope says {want}",
        c.kind.name(), c.layer, c.eng.name(), c.o, c.r
    );
    st.classf("kind", c.kind.name());
    st.classf("layer", format!("{:?}", c.layer));
    st.classf("supported", want);
    if c.o <= 65537 && c.r <= 65537 && dist1(c.kind, c.o, c.r) {
        st.nontrivial_case("layers", c);
        st.class("boundary");
    }
    Ok(())
}

// ----------------------------------------------------------------------
// validate / new / reset / Rate::encoder / Rate::decoder agree with supports

#[derive(Clone, Debug, PartialEq, Eq, Hash, Serialize, Deserialize)]
pub struct AgreeCase {
    pub kind: Kind,
    pub eng: Eng,
    pub dec: bool,
    pub o: usize,
    pub r: usize,
    pub b: usize,
    /// the generated size before it was bounded for the allocating calls; validate() (allocates nothing) gets this one too
    #[serde(default)]
    pub b_raw: Option<usize>,
}

fn agreement_strategy(_t: Tier) -> BoxedStrategy<AgreeCase> {
    gen::kind_any()
        .prop_flat_map(|kind| {
            let size = prop_oneof![
                5 => prop_oneof![Just(2usize), Just(4), Just(64), Just(62), Just(66)],
                2 => prop_oneof![Just(0usize), Just(1), Just(3), Just(63), Just(65)],
                2 => prop_oneof![Just(usize::MAX), Just(usize::MAX - 1), Just(usize::MAX - 61), Just(1usize << 40), Just(1usize << 47), Just((1usize << 47) - 2), Just(1usize << 63), Just((1usize << 32) + 2), Just(1usize << 20)],
            ];
            (gen::engine_for(kind), any::<bool>(), near_boundary(kind), size).prop_map(move |(eng, dec, (o, r), b)| {
                // Ok-side allocations stay small: 65536 positions x one block
                let b_raw = Some(b);
                let b = if kind.env(o, r) && !bad_size(b) && b > 66 { 64 } else { b };
                AgreeCase { kind, eng, dec, o, r, b, b_raw }
            })
        })
        .boxed()
}

fn check_agreement(c: &AgreeCase, st: &mut Stats) -> CheckResult {
    let truth = truth_config(c.kind, c.o, c.r, c.b);
    let (o, r, b) = (c.o, c.r, c.b);
    let sup = no_panic(|| supports(c.kind, c.eng, if c.dec { Layer::Decoder } else { Layer::Encoder }, o, r)).map_err(|p| format!("supports {p}"))?;
    ensure!(sup == c.kind.env(o, r), "{}::supports({o}, {r}) = {sup} disagrees with the envelope", c.kind.name());
    for layer in [Layer::Rate, Layer::Encoder, Layer::Decoder] {
        if let Some(res) = no_panic(|| validate(c.kind, c.eng, layer, o, r, b)).map_err(|p| format!("validate {p}"))? {
            judge(&format!("{} {layer:?}::validate({o}, {r}, {b})", c.kind.name()), &res, &truth)?;
            ensure!(res.is_ok() == (sup && !bad_size(b)), "validate({o},{r},{b}) is {res:?} but supports is {sup}");
        }
        // validate allocates nothing: supported counts with ANY even non-zero size are valid
        if let Some(bv) = c.b_raw.filter(|&bv| bv != b) {
            if let Some(res) = no_panic(|| validate(c.kind, c.eng, layer, o, r, bv)).map_err(|p| format!("validate({o}, {r}, {bv}) {p}"))? {
                judge(&format!("{} {layer:?}::validate({o}, {r}, {bv})", c.kind.name()), &res, &truth_config(c.kind, o, r, bv))?;
                ensure!(res.is_ok() == (sup && !bad_size(bv)), "validate({o},{r},{bv}) is {res:?} but supports is {sup}");
            }
        }
    }
    // construction
    let made = no_panic(|| crate::history::Obj::make(c.dec, c.kind, c.eng, gen::Cfg { k: o, r, b })).map_err(|p| format!("new({o}, {r}, {b}) {p}"))?;
    judge(&format!("{}::new({o}, {r}, {b})", c.kind.name()), &made.as_ref().map(|_| ()).map_err(|e| *e), &truth)?;
    if let Some(res) = no_panic(|| if c.dec { rate_decoder_ok(c.kind, c.eng, o, r, b) } else { rate_encoder_ok(c.kind, c.eng, o, r, b) }).map_err(|p| format!("Rate::encoder/decoder {p}"))? {
        judge(&format!("{}Rate::{}({o}, {r}, {b})", c.kind.name(), if c.dec { "decoder" } else { "encoder" }), &res, &truth)?;
    }
    // reset on a live object
    let mut live = crate::history::Obj::make(c.dec, c.kind, c.eng, gen::Cfg { k: 2, r: 2, b: 2 }).map_err(|e| format!("new(2,2,2) failed: {e:?}"))?;
    let out = live.apply(&crate::history::Call::Reset(o, r, b)).map_err(|p| format!("reset({o}, {r}, {b}) {p}"))?;
    let crate::history::Outcome::Unit(res) = out else { fail!("harness: outcome") };
    judge(&format!("{}::reset({o}, {r}, {b})", c.kind.name()), &res, &truth)?;
    st.classf("kind", c.kind.name());
    st.classf("ok", truth.is_empty());
    if o <= 65537 && r <= 65537 && dist1(c.kind, o, r) {
        st.nontrivial_case("agreement", c);
        st.class("boundary");
    }
    Ok(())
}

// ----------------------------------------------------------------------
// corners really work

fn corner_strategy(tier: Tier) -> BoxedStrategy<CornerCase> {
    gen::kind_any()
        .prop_flat_map(move |kind| {
            let corners = gen::envelope_corners(kind);
            let quick = tier == Tier::Quick;
            let eng = if quick { Just(Eng::Default).boxed() } else { gen::engine_for(kind) };
            let sizes: Vec<usize> = if quick { vec![2] } else { vec![2, 64, 66] };
            (0..corners.len(), eng, 0..sizes.len(), prop_oneof![3 => Just(1u8), 1 => Just(0u8)], any::<u64>(), crate::props::c01::corner_n_mode()).prop_map(
                move |(ci, eng, si, pattern, seed, n_mode)| CornerCase { kind, eng, k: corners[ci].0, r: corners[ci].1, b: sizes[si], pattern, seed, n_mode },
            )
        })
        .boxed()
}
