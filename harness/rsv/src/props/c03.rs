//! C03 - all engines are bit-identical, end to end and primitive by primitive.

use crate::engines::*;
use crate::gen::{self, Cfg, Round, Xs};
use crate::prims::{self, Buf, Xform};
use crate::props::PropDef;
use crate::runner::{CheckResult, GenPart, PartDyn, Stats, Tier};
use crate::{ensure, fail};
use proptest::prelude::*;
use serde::{Deserialize, Serialize};

pub fn def() -> PropDef {
    PropDef {
        id: "C03",
        rule: "generated primitive calls (fft/ifft: buffer of n<=~1100 shards x 1..4 blocks (transforms of up to 32 shards: up to 200 blocks, i.e. 12.5 KiB per shard), pos with guard shards on both sides, size=2^a, truncated_size in {0,1,size,2^b+-1,random}, skew_delta in {0, pos+size, aligned multiples up to the table end, unaligned}; mul: all log_m classes; eval_poly: 0/1 mark vectors and vectors of arbitrary elements x covering truncations) executed on every engine, a third of them on buffers at non-aligned addresses ([u8; 64] has alignment 1), (Naive, NoSimd, Ssse3, Avx2, Default, Neon source on emulated intrinsics) and compared on the contract-defined outputs only; guard shards and trailing blocks must be unchanged; plus whole encode/decode rounds on every engine. non-trivial: truncated<size, or >1 block, or skew index in the top half of the table, or odd number of layers; distinct by full case",
        assumptions: &[
            "fft is compared on positions pos..pos+truncated_size for any input; ifft on all size positions only when the input beyond truncated_size is zero (otherwise only confinement and absence of panic)",
            "Neon kernels run on seven emulated intrinsics (rsv-neon/src/neon_emu.rs)",
        ],
        parts,
    }
}

fn parts() -> Vec<Box<dyn PartDyn>> {
    vec![
        Box::new(GenPart {
            name: "xform",
            quick: 120_000,
            thorough: 1_000_000,
            shrink_iters: 800,
            strat: xform_strategy,
            check: check_xform,
        }),
        Box::new(GenPart {
            name: "mul",
            quick: 200_000,
            thorough: 500_000,
            shrink_iters: 300,
            strat: mul_strategy,
            check: check_mul,
        }),
        Box::new(GenPart {
            name: "eval_poly",
            quick: 600,
            thorough: 4_000,
            shrink_iters: 60,
            strat: evalpoly_strategy_values,
            check: check_evalpoly,
        }),
        Box::new(GenPart {
            name: "e2e",
            quick: 8_000,
            thorough: 150_000,
            shrink_iters: 400,
            strat: |t| gen::kind_rate().prop_flat_map(move |k| gen::round_of_kind(k, t.pick(600, 2000))).boxed(),
            check: check_e2e,
        }),
    ]
}

// ----------------------------------------------------------------------
// fft / ifft

#[derive(Clone, Debug, Serialize, Deserialize)]
pub struct XformCase {
    pub which: Xform,
    pub size_log: u8,
    pub pos: usize,
    pub after: usize,
    pub blocks: usize,
    pub trunc: usize,
    pub skew_delta: usize,
    /// input beyond truncated_size is zero
    pub zero_tail: bool,
    pub seed: u64,
}

pub fn xform_strategy(_t: Tier) -> BoxedStrategy<XformCase> {
    (
        prop_oneof![Just(Xform::Fft), Just(Xform::Ifft)],
        prop_oneof![150 => 0u8..=7, 50 => 8u8..=10, 6 => 11u8..=13, 1 => 14u8..=16],
        prop_oneof![3 => Just(0usize), 3 => 1usize..=9, 1 => 10usize..=70],
        0usize..=3,
        // blocks per shard: mostly 1..4; for small transforms sometimes 5..200 (shards of up to 12.5 KiB: strip-wise kernels)
        prop_oneof![30 => Just(1usize), 12 => Just(2usize), 6 => 3usize..=4, 1 => 5usize..=64, 1 => 65usize..=200],
        (0u8..6, any::<u16>()),
        (0u8..6, any::<u16>()),
        any::<bool>(),
        any::<u64>(),
    )
        .prop_map(|(which, size_log, pos_raw, after, blocks, (tsel, traw), (ssel, sraw), zero_tail, seed)| {
            let size = 1usize << size_log;
            let trunc = match tsel {
                0 => 0,
                1 => 1.min(size),
                2 => size,
                3 => {
                    // power of two +- 1
                    let a = (traw as usize % (size_log as usize + 1)) as u32;
                    let p = 1usize << a;
                    (if traw & 0x8000 != 0 { p + 1 } else { p.saturating_sub(1) }).min(size)
                }
                _ => gen::idx_map(traw, size),
            };
            // chunk-aligned positions (as the encoders use) half of the time
            let pos = if ssel == 1 { pos_raw / 4 * size.min(64) } else { pos_raw };
            let max_delta = 65536 - size;
            let skew_delta = match ssel {
                0 => 0,
                1 => (pos + size).min(max_delta) / size * size,
                2 => max_delta, // table end
                3 => (gen::idx_map(sraw, max_delta / size)) * size,
                // unaligned offsets 2^a - 3*2^b: the third multiplier of the first two-layer group is then
                // the "vanishing" sentinel entry of the skew table (a branch aligned offsets never reach)
                5 => {
                    let a = 2 + (sraw as u32 % 15);
                    let b = (sraw as u32 >> 8) % (a - 1);
                    ((1usize << a) - 3 * (1usize << b)).min(max_delta)
                }
                _ => gen::idx_map(sraw, max_delta),
            };
            let (pos, blocks) = if size_log >= 14 { (pos.min(8), 1) } else if size_log >= 6 { (pos, blocks.min(4)) } else { (pos, blocks) };
            let skew_delta = skew_delta.min(65536 - size);
            XformCase { which, size_log, pos, after, blocks, trunc, skew_delta, zero_tail, seed }
        })
        .boxed()
}

fn build_input(c: &XformCase) -> Buf {
    let size = 1usize << c.size_log;
    let n = c.pos + size + c.after;
    let mut buf = Buf::zeroed(n, c.blocks, 2);
    prims::fill_structured(&mut buf.data, c.seed);
    if c.zero_tail {
        for i in c.pos + c.trunc..c.pos + size {
            for blk in buf.shard_mut(i) {
                *blk = [0u8; 64];
            }
        }
    }
    buf
}

pub fn check_xform(c: &XformCase, st: &mut Stats) -> CheckResult {
    let size = 1usize << c.size_log;
    ensure!(c.trunc <= size && c.skew_delta + size <= 65536, "harness: case outside the contract");
    let input = build_input(c);
    // a third of the cases run on a buffer that does not start on an aligned address ([u8; 64] has alignment 1)
    let misalign = if c.seed % 3 == 0 && c.size_log <= 12 { 1 + (c.seed >> 8) as usize % 63 } else { 0 };
    let engs = engines();
    let mut outs: Vec<(Eng, Buf)> = Vec::new();
    for &e in &engs {
        let mut buf = input.clone();
        prims::xform_at(e, c.which, &mut buf, misalign, c.pos, size, c.trunc, c.skew_delta);
        // confinement
        for i in (0..c.pos).chain(c.pos + size..buf.n) {
            ensure!(
                buf.shard(i) == input.shard(i),
                "{:?} on {} changed shard {i} outside the range {}..{} it was asked to transform",
                c.which, e.name(), c.pos, c.pos + size
            );
        }
        ensure!(
            buf.data[buf.n * buf.blocks..] == input.data[input.n * input.blocks..],
            "{:?} on {} wrote beyond the shard array",
            c.which, e.name()
        );
        outs.push((e, buf));
    }
    // contract-defined outputs
    let cmp_len = match c.which {
        Xform::Fft => c.trunc,
        Xform::Ifft => {
            if c.zero_tail {
                size
            } else {
                0
            }
        }
    };
    let (e0, b0) = &outs[0];
    for (e, b) in &outs[1..] {
        for i in c.pos..c.pos + cmp_len {
            if b.shard(i) != b0.shard(i) {
                fail!(
                    "{:?}(pos={}, size={size}, truncated={}, skew_delta={}): {} and {} differ at shard {i} (offset {} in the range)",
                    c.which, c.pos, c.trunc, c.skew_delta, e0.name(), e.name(), i - c.pos
                );
            }
        }
    }
    // whole-buffer equality among the engines sharing the two-layer schedule: recorded, not required
    let same_all = outs[1..].windows(2).all(|w| w[0].1 == w[1].1);
    st.classf("two_layer_engines_whole_buffer_equal", same_all);
    st.classf("op", format!("{:?}", c.which));
    st.classf("size_log", c.size_log);
    st.classf("blocks", c.blocks);
    st.classf("trunc", if c.trunc == 0 { "0" } else if c.trunc == size { "full" } else { "partial" });
    st.classf("zero_tail", c.zero_tail);
    st.classf("misaligned", if misalign == 0 { "no".to_string() } else { format!("mod8={}", misalign % 8) });
    st.classf("skew", if c.skew_delta == 0 { "0" } else if c.skew_delta % size == 0 { "aligned" } else { "unaligned" });
    let nontrivial = c.trunc < size || c.blocks > 1 || c.skew_delta + size > 32768 || c.size_log % 2 == 1;
    if nontrivial && cmp_len > 0 {
        st.nontrivial_case("xform", c);
    }
    Ok(())
}

// ----------------------------------------------------------------------
// mul

#[derive(Clone, Debug, Serialize, Deserialize)]
pub struct MulCase {
    pub blocks: usize,
    pub log_m: u16,
    pub mode: u8,
    pub seed: u64,
}

fn mul_strategy(_t: Tier) -> BoxedStrategy<MulCase> {
    (
        prop_oneof![1 => Just(0usize), 5 => Just(1usize), 3 => 2usize..=5],
        prop_oneof![1 => Just(0u16), 1 => Just(1u16), 1 => Just(65534u16), 1 => Just(65535u16), 8 => any::<u16>()],
        0u8..3,
        any::<u64>(),
    )
        .prop_map(|(blocks, log_m, mode, seed)| MulCase { blocks, log_m, mode, seed })
        .boxed()
}

fn check_mul(c: &MulCase, st: &mut Stats) -> CheckResult {
    let mut rng = Xs::new(c.seed);
    let mut input = vec![[0u8; 64]; c.blocks + 1]; // one guard block
    for blk in input.iter_mut() {
        match c.mode {
            0 => rng.fill(blk),
            1 => {
                // sparse: mostly zero symbols
                for i in 0..32 {
                    if rng.below(4) == 0 {
                        blk[i] = rng.next() as u8;
                        blk[i + 32] = rng.next() as u8;
                    }
                }
            }
            _ => {
                // nibble patterns
                let v = rng.next() as u8;
                blk.fill(v);
            }
        }
    }
    let mut outs = Vec::new();
    for e in engines() {
        let mut buf = input.clone();
        prims::mul_at(e, &mut buf[..c.blocks], if c.seed % 3 == 0 { 1 + (c.seed >> 8) as usize % 63 } else { 0 }, c.log_m);
        ensure!(buf[c.blocks] == input[c.blocks], "mul on {} wrote beyond its slice", e.name());
        outs.push((e, buf));
    }
    for (e, b) in &outs[1..] {
        if b != &outs[0].1 {
            let at = b.iter().flatten().zip(outs[0].1.iter().flatten()).position(|(x, y)| x != y).unwrap();
            fail!("mul(log_m={}) differs between {} and {} at byte {at}", c.log_m, outs[0].0.name(), e.name());
        }
    }
    st.classf("blocks", c.blocks);
    st.classf("log_m", match c.log_m { 0 => "0", 65535 => "65535", 65534 => "65534", _ => "other" });
    if c.blocks > 0 {
        st.nontrivial_case("mul", c);
    }
    Ok(())
}

// ----------------------------------------------------------------------
// eval_poly

#[derive(Clone, Debug, PartialEq, Eq, Hash, Serialize, Deserialize)]
pub struct EvalPolyCase {
    /// 0 sparse, 1 dense prefix, 2 decoder-shaped (high), 3 decoder-shaped (low), 4 random density
    pub shape: u8,
    pub a: u16,
    pub b: u16,
    pub trunc_sel: u8,
    pub seed: u64,
    /// 0: marks are 1 (what the decoders write); 1: every mark is a random non-zero element;
    /// 2: marks from {1, 2, 255, 256, 32768, 65534, 65535, random} (the contract does not restrict the element values)
    #[serde(default)]
    pub values: u8,
}

/// 0/1 indicator vectors only (the domain of the mathematical contract, C15)
pub fn evalpoly_strategy(_t: Tier) -> BoxedStrategy<EvalPolyCase> {
    (0u8..5, any::<u16>(), any::<u16>(), 0u8..4, any::<u64>())
        .prop_map(|(shape, a, b, trunc_sel, seed)| EvalPolyCase { shape, a, b, trunc_sel, seed, values: 0 })
        .boxed()
}

/// also vectors of arbitrary elements (engine agreement is claimed for identical arguments, whatever they are)
fn evalpoly_strategy_values(_t: Tier) -> BoxedStrategy<EvalPolyCase> {
    (0u8..5, any::<u16>(), any::<u16>(), 0u8..4, any::<u64>(), prop_oneof![3 => Just(0u8), 2 => Just(1u8), 2 => Just(2u8)])
        .prop_map(|(shape, a, b, trunc_sel, seed, values)| EvalPolyCase { shape, a, b, trunc_sel, seed, values })
        .boxed()
}

/// builds the 0/1 vector; returns (vector, last mark + 1)
pub fn evalpoly_input(c: &EvalPolyCase) -> (Box<[u16; 65536]>, usize) {
    let mut v: Box<[u16; 65536]> = vec![0u16; 65536].into_boxed_slice().try_into().unwrap();
    let mut rng = Xs::new(c.seed);
    match c.shape {
        0 => {
            let cnt = 1 + c.a as usize % 24;
            let span = 1 + c.b as usize;
            for _ in 0..cnt {
                v[rng.below(span)] = 1;
            }
        }
        1 => {
            let len = c.a as usize;
            for x in v.iter_mut().take(len) {
                *x = 1;
            }
            for _ in 0..(c.b % 64) {
                let i = rng.below(len.max(1));
                v[i] = 0;
            }
        }
        2 => {
            // high-rate decoder shape: recovery 0..r (some missing), r..m all marked, originals m..m+k some missing
            let r = 1 + c.a as usize % 2048;
            let m = r.next_power_of_two();
            let k = 1 + c.b as usize % (65536 - m);
            for i in 0..r {
                if rng.below(3) == 0 {
                    v[i] = 1;
                }
            }
            for x in &mut v[r..m] {
                *x = 1;
            }
            for i in m..m + k {
                if rng.below(5) == 0 {
                    v[i] = 1;
                }
            }
        }
        3 => {
            // low-rate decoder shape: everything from recovery_end to the end is marked
            let k = 1 + c.a as usize % 2048;
            let m = k.next_power_of_two();
            let r = 1 + c.b as usize % (65536 - m);
            for i in 0..k {
                if rng.below(3) == 0 {
                    v[i] = 1;
                }
            }
            for i in m..m + r {
                if rng.below(5) == 0 {
                    v[i] = 1;
                }
            }
            for x in &mut v[m + r..] {
                *x = 1;
            }
        }
        _ => {
            let span = 1 + c.a as usize;
            let dens = 1 + c.b as usize % 16;
            for i in 0..span {
                if rng.below(dens) == 0 {
                    v[i] = 1;
                }
            }
        }
    }
    if c.values != 0 {
        const POOL: [u16; 7] = [1, 2, 255, 256, 32768, 65534, 65535];
        let mut rng = Xs::new(c.seed ^ 0x76616c);
        for x in v.iter_mut().filter(|x| **x != 0) {
            *x = if c.values == 2 && rng.below(2) == 0 { POOL[rng.below(POOL.len())] } else { 1 + rng.below(65535) as u16 };
        }
    }
    let last = v.iter().rposition(|&x| x != 0).map(|p| p + 1).unwrap_or(0);
    (v, last)
}

pub fn evalpoly_trunc(c: &EvalPolyCase, last: usize) -> usize {
    match c.trunc_sel {
        0 => last,
        1 => 65536,
        2 => (last + 1).min(65536),
        _ => last + Xs::new(c.seed ^ 77).below(65536 - last + 1),
    }
}

fn check_evalpoly(c: &EvalPolyCase, st: &mut Stats) -> CheckResult {
    let (input, last) = evalpoly_input(c);
    let trunc = evalpoly_trunc(c, last);
    let mut outs = Vec::new();
    for e in engines() {
        let mut v = input.clone();
        prims::eval_poly(e, &mut v, trunc);
        outs.push((e, v));
    }
    for (e, v) in &outs[1..] {
        if v[..] != outs[0].1[..] {
            let at = v.iter().zip(outs[0].1.iter()).position(|(x, y)| x != y).unwrap();
            fail!("eval_poly(truncated_size={trunc}) differs between {} and {} at point {at}", outs[0].0.name(), e.name());
        }
    }
    st.classf("shape", c.shape);
    st.classf("values", match c.values { 0 => "marks 0/1", 1 => "random elements", _ => "pool + random elements" });
    st.classf("trunc", if trunc == last { "tight" } else if trunc == 65536 { "full" } else { "between" });
    if last > 0 {
        st.nontrivial_case("eval_poly", c);
    }
    Ok(())
}

// ----------------------------------------------------------------------
// end to end

fn check_e2e(rd: &Round, st: &mut Stats) -> CheckResult {
    let Cfg { k, r, b } = rd.cfg;
    let data = rd.data.expand(k, b);
    let given = rd.recv.arrival(k, r);
    let mut first: Option<(Eng, Vec<Vec<u8>>, std::collections::BTreeMap<usize, Vec<u8>>)> = None;
    for e in engines() {
        let rec = match encode_all(rd.kind, e, k, r, b, &data) {
            Ok(v) => v,
            Err(err) => fail!("encode on {} failed: {err:?}", e.name()),
        };
        let restored = match decode_all(rd.kind, e, k, r, b, &given, &data, &rec) {
            Ok(v) => v,
            Err(err) => fail!("decode on {} failed: {err:?}", e.name()),
        };
        match &first {
            None => first = Some((e, rec, restored)),
            Some((e0, rec0, res0)) => {
                if &rec != rec0 {
                    let j = rec.iter().zip(rec0).position(|(x, y)| x != y).unwrap();
                    fail!("recovery shard {j} differs between {} and {} (k={k} r={r} b={b} {})", e0.name(), e.name(), rd.kind.name());
                }
                ensure!(&restored == res0, "restored originals differ between {} and {} (k={k} r={r} b={b} {})", e0.name(), e.name(), rd.kind.name());
            }
        }
    }
    st.classf("kind", rd.kind.name());
    st.classf("counts", gen::count_class(k, r));
    st.classf("size", gen::size_class(b));
    st.classf("chunks", gen::chunk_shape(k, r, rd.kind.is_high(k, r)));
    let n_orig = given.iter().filter(|g| !g.rec).count();
    if n_orig < k {
        st.nontrivial_case("e2e", rd);
    }
    Ok(())
}
