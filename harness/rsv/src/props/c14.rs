//! C14 - the default engine runs only SIMD code the CPU reports and picks the best.

use crate::engines::*;
use crate::gen::{self, Cfg, DataSpec, RecvSpec};
use crate::hooks::*;
use crate::prims::{self, Buf, Xform};
use crate::props::PropDef;
use crate::runner::{CheckResult, GenPart, PartDyn, Run, Stats, Tier};
use crate::{ensure, fail};
use proptest::prelude::*;
use serde::{Deserialize, Serialize};
use serde_json::Value;

pub fn def() -> PropDef {
    PropDef {
        id: "C14",
        rule: "all four subsets of {ssse3, avx2} (exhaustive; intersected with what the CPU reports) x generated workloads (encode + decode rounds through ReedSolomonEncoder/Decoder, DefaultRate<DefaultEngine>, the one-shot functions, and raw DefaultEngine primitives; configurations small..medium, sizes with tails), a few workloads with thousands of shards up to a full 65536-position working space, plus raw DefaultEngine transforms of 2..65536 shards over working sets drawn log-uniformly from 1 MiB to 512 MiB (quick) / 1 GiB (thorough). Part masks_per_process (authoritative): every mask in its own fresh child process with the mask set before anything else runs, so that an implementation which caches runtime detection per process is judged correctly; parts masks / big_transforms: the same workloads with the mask switched per thread inside one process (skipped, with a note, when in-process switching turns out to be ineffective). oracle: ISA trace recorded by the hooks in every #[target_feature] entry point: no entry point of an ISA outside the mask is reached; for best = max(mask) every primitive the workload necessarily exercises was executed by the best ISA and no weaker SIMD ISA ran; empty mask => no SIMD entry point at all; output bytes identical under all masks and equal to the explicit NoSimd engine. non-trivial: mask != full and the workload contains a decode; distinct by (workload, mask)",
        assumptions: &[
            "decides the x86 selection logic; the AArch64 branch is cfg-ed out on this host",
            "calibration: explicit Avx2 / Ssse3 engines must produce their trace bits, otherwise the check is inconclusive (exit 2), never a violation",
            "the trace names the entry point that ran, not the instructions it contains: that each #[target_feature] entry point is compiled for the ISA its hook names (attribute and hook constant sit on adjacent lines) is taken from the source, not tested - no CPU without AVX2 and no instruction-level emulator is available here (seeded change C14r5, a wrong attribute, is out of reach of generated inputs)",
        ],
        parts,
    }
}

fn parts() -> Vec<Box<dyn PartDyn>> {
    vec![
        Box::new(Calibration),
        Box::new(PerProcess),
        Box::new(GenPart { name: "masks", quick: 10_000, thorough: 60_000, shrink_iters: 300, strat: strategy, check }),
        Box::new(GenPart { name: "big_transforms", quick: 12, thorough: 300, shrink_iters: 20, strat: big_strategy, check: check_big }),
    ]
}

struct Calibration;

impl PartDyn for Calibration {
    fn name(&self) -> &'static str {
        "calibration"
    }
    fn run(&self, run: &mut Run) {
        let _ = take_trace();
        for (eng, isa, name) in [(Eng::Avx2, ISA_AVX2, "avx2"), (Eng::Ssse3, ISA_SSSE3, "ssse3")] {
            if !eng.available() {
                run.extra.insert(format!("cpu_has_{name}"), false.into());
                continue;
            }
            run.extra.insert(format!("cpu_has_{name}"), true.into());
            let data = DataSpec { mode: 0, seed: 1 }.expand(3, 64);
            let rec = encode_all(Kind::High, eng, 3, 2, 64, &data);
            let given = [Given { rec: true, idx: 0 }, Given { rec: false, idx: 1 }, Given { rec: true, idx: 1 }];
            let ok = rec.is_ok() && decode_all(Kind::High, eng, 3, 2, 64, &given, &data, rec.as_ref().unwrap()).is_ok();
            let t = take_trace();
            let want = trace_bit(isa, PRIM_MUL) | trace_bit(isa, PRIM_FFT) | trace_bit(isa, PRIM_IFFT) | trace_bit(isa, PRIM_EVAL_POLY);
            if !ok || t & want != want {
                run.inconclusive.push(format!("calibration: explicit {name} engine did not produce its trace bits (trace {t:#x}); hook sites missing in this tree"));
            }
        }
    }
    fn replay(&self, _case: &Value) -> Result<(), String> {
        Ok(())
    }
}

#[derive(Clone, Copy, Debug, PartialEq, Eq, Hash, Serialize, Deserialize)]
pub enum Via {
    Rs,
    DefaultRate,
    OneShot,
    Prims,
}

#[derive(Clone, Debug, PartialEq, Eq, Hash, Serialize, Deserialize)]
pub struct MaskCase {
    pub via: Via,
    pub cfg: Cfg,
    pub data: DataSpec,
    pub recv: RecvSpec,
    pub decode: bool,
}

fn strategy(t: Tier) -> BoxedStrategy<MaskCase> {
    (
        prop_oneof![Just(Via::Rs), Just(Via::DefaultRate), Just(Via::OneShot), Just(Via::Prims)],
        prop_oneof![
            150 => gen::cfg(Kind::Default, t.pick(300, 1000)),
            // thousands of shards up to a full 65536-position working space (dispatch keyed on shard count)
            1 => (prop_oneof![Just((30000usize, 3000usize)), Just((3000, 30000)), Just((9000, 7000)), Just((20000, 20000)), Just((4000, 4200))], any::<bool>()).prop_map(|((k, r), _)| (gen::Cfg { k, r, b: 2 }, "huge")),
        ],
        gen::data_spec(),
        gen::recv_spec(),
        prop::bool::weighted(0.8),
    )
        .prop_map(|(via, (cfg, _), data, recv, decode)| MaskCase { via, cfg, data, recv, decode })
        .boxed()
}

#[derive(Clone, Debug, Serialize, Deserialize)]
pub struct Obs {
    pub trace: u32,
    pub bytes: u64,
    pub decoded_with_loss: bool,
}

fn workload(c: &MaskCase) -> Result<Obs, String> {
    let Cfg { k, r, b } = c.cfg;
    let _ = take_trace();
    let mut decoded_with_loss = false;
    let digest;
    match c.via {
        Via::Prims => {
            // raw DefaultEngine primitives (engine constructed under the current mask)
            let size = (k + r).next_power_of_two().min(256);
            let mut buf = Buf::zeroed(size, b.div_ceil(64), 0);
            let mut rng = gen::Xs::new(c.data.seed);
            for blk in buf.data.iter_mut() {
                rng.fill(blk);
            }
            prims::xform(Eng::Default, Xform::Ifft, &mut buf, 0, size, size, 0);
            prims::xform(Eng::Default, Xform::Fft, &mut buf, 0, size, size, 0);
            prims::mul(Eng::Default, &mut buf.data[..], (c.data.seed as u16) | 1);
            let mut er: Box<[u16; 65536]> = vec![0u16; 65536].into_boxed_slice().try_into().unwrap();
            for i in 0..k {
                er[i * 3 % 65536] = 1;
            }
            prims::eval_poly(Eng::Default, &mut er, 65536);
            decoded_with_loss = true;
            digest = crate::runner::hash_of(&(buf.data, &er[..]));
        }
        _ => {
            let data = c.data.expand(k, b);
            let given = c.recv.arrival(k, r);
            let (rec, restored) = match c.via {
                Via::OneShot => {
                    let rec = reed_solomon_simd::encode(k, r, &data).map_err(|e| format!("encode: {e:?}"))?;
                    let restored = if c.decode {
                        let o: Vec<(usize, &Vec<u8>)> = given.iter().filter(|g| !g.rec).map(|g| (g.idx, &data[g.idx])).collect();
                        let rv: Vec<(usize, &Vec<u8>)> = given.iter().filter(|g| g.rec).map(|g| (g.idx, &rec[g.idx])).collect();
                        Some(reed_solomon_simd::decode(k, r, o, rv).map_err(|e| format!("decode: {e:?}"))?.into_iter().collect::<std::collections::BTreeMap<_, _>>())
                    } else {
                        None
                    };
                    (rec, restored)
                }
                _ => {
                    let kind = if c.via == Via::Rs { Kind::Rs } else { Kind::Default };
                    let rec = encode_all(kind, Eng::Default, k, r, b, &data).map_err(|e| format!("encode: {e:?}"))?;
                    let restored = if c.decode { Some(decode_all(kind, Eng::Default, k, r, b, &given, &data, &rec).map_err(|e| format!("decode: {e:?}"))?) } else { None };
                    (rec, restored)
                }
            };
            if let Some(m) = &restored {
                decoded_with_loss = !m.is_empty();
            }
            digest = crate::runner::hash_of(&(rec, restored));
        }
    }
    Ok(Obs { trace: take_trace(), bytes: digest, decoded_with_loss })
}

fn isa_bits(isa: u32) -> u32 {
    0xF << (isa * 4)
}

fn cpu_mask() -> u8 {
    (if Eng::Ssse3.available() { MASK_SSSE3 } else { 0 }) | (if Eng::Avx2.available() { MASK_AVX2 } else { 0 })
}

/// the rules of the property for one workload observed under the four masks
fn judge(c: &MaskCase, obs: &[Obs], st: &mut Stats) -> CheckResult {
    let cpu = cpu_mask();
    let mut digests = Vec::new();
    for mask in 0u8..4 {
        let eff = mask & cpu;
        let obs = &obs[mask as usize];
        // nothing outside the mask
        if eff & MASK_AVX2 == 0 {
            ensure!(obs.trace & isa_bits(ISA_AVX2) == 0, "mask {mask:#04b} (avx2 not reported): AVX2 code was executed (trace {:#x}) via {:?}", obs.trace, c.via);
        }
        if eff & MASK_SSSE3 == 0 {
            ensure!(obs.trace & isa_bits(ISA_SSSE3) == 0, "mask {mask:#04b} (ssse3 not reported): SSSE3 code was executed (trace {:#x}) via {:?}", obs.trace, c.via);
        }
        // the best reported ISA does everything the workload necessarily needs
        let best = if eff & MASK_AVX2 != 0 { Some(ISA_AVX2) } else if eff & MASK_SSSE3 != 0 { Some(ISA_SSSE3) } else { None };
        match best {
            None => ensure!(obs.trace == 0, "no SIMD feature reported but SIMD entry points ran (trace {:#x})", obs.trace),
            Some(isa) => {
                let mut need = trace_bit(isa, PRIM_FFT) | trace_bit(isa, PRIM_IFFT);
                if obs.decoded_with_loss {
                    need |= trace_bit(isa, PRIM_EVAL_POLY) | trace_bit(isa, PRIM_MUL);
                }
                if obs.trace & need != need {
                    fail!(
                        "mask {mask:#04b}: best reported ISA is {} but not every primitive ran on it: trace {:#x}, required bits {need:#x} (bit = isa*4 + {{mul,fft,ifft,eval_poly}}) via {:?}",
                        if isa == ISA_AVX2 { "avx2" } else { "ssse3" }, obs.trace, c.via
                    );
                }
                let weaker = if isa == ISA_AVX2 { isa_bits(ISA_SSSE3) } else { 0 };
                ensure!(obs.trace & weaker == 0, "mask {mask:#04b}: a weaker SIMD ISA ran although avx2 is reported (trace {:#x}) via {:?}", obs.trace, c.via);
            }
        }
        digests.push(obs.bytes);
        if eff != cpu && obs.decoded_with_loss {
            st.nontrivial_key(crate::runner::hash_of(&(c, mask)));
        }
        st.classf("mask", format!("{mask:02b}"));
    }
    ensure!(digests.windows(2).all(|w| w[0] == w[1]), "results differ between feature masks: digests {digests:x?} via {:?}", c.via);
    // equal to the explicit portable engine
    if c.via != Via::Prims && c.via != Via::OneShot {
        let Cfg { k, r, b } = c.cfg;
        let data = c.data.expand(k, b);
        let given = c.recv.arrival(k, r);
        let rec = encode_all(Kind::Default, Eng::NoSimd, k, r, b, &data).map_err(|e| format!("NoSimd encode: {e:?}"))?;
        let restored = if c.decode { Some(decode_all(Kind::Default, Eng::NoSimd, k, r, b, &given, &data, &rec).map_err(|e| format!("NoSimd decode: {e:?}"))?) } else { None };
        ensure!(crate::runner::hash_of(&(rec, restored)) == digests[0], "DefaultEngine results differ from the explicit NoSimd engine");
    }
    st.classf("via", format!("{:?}", c.via));
    st.classf("decode", c.decode);
    Ok(())
}

/// in-process variant: the mask is switched per thread between the four executions
fn check(c: &MaskCase, st: &mut Stats) -> CheckResult {
    if !INPROCESS_OK.load(std::sync::atomic::Ordering::Relaxed) {
        st.class("skipped_detection_is_cached_per_process");
        return Ok(());
    }
    let mut obs = Vec::new();
    for mask in 0u8..4 {
        let _g = MaskGuard::set(mask);
        obs.push(workload(c).map_err(|e| format!("mask {mask:#04b}: {e}"))?);
    }
    judge(c, &obs, st)?;
    st.evaluations += 3; // one evaluation per (workload, mask)
    Ok(())
}

/// false when switching the mask inside one process has no effect (an implementation may cache the result
/// of runtime detection process-wide: legitimate); the per-process part is then the only judge
static INPROCESS_OK: std::sync::atomic::AtomicBool = std::sync::atomic::AtomicBool::new(true);

// ----------------------------------------------------------------------
// authoritative variant: every mask in its own fresh process, mask set before anything else runs

struct PerProcess;

#[derive(Serialize, Deserialize)]
struct ChildJob {
    mask: u8,
    cases: Vec<MaskCase>,
    big: Vec<BigXf>,
}

#[derive(Serialize, Deserialize)]
struct ChildOut {
    cases: Vec<Result<Obs, String>>,
    big: Vec<(u32, u64)>,
}

/// entry point of `rsv c14-child`
pub fn child_main() -> i32 {
    use std::io::Read;
    let mut text = String::new();
    if std::io::stdin().read_to_string(&mut text).is_err() {
        return 3;
    }
    let Ok(job) = serde_json::from_str::<ChildJob>(&text) else { return 3 };
    // before any engine, table or detection is touched
    reed_solomon_simd::verif_hooks::set_feature_mask(job.mask);
    let cases = job.cases.iter().map(workload).collect();
    let big = job.big.iter().map(big_observe).collect();
    println!("{}", serde_json::to_string(&ChildOut { cases, big }).unwrap());
    0
}

fn run_mask_child(job: &ChildJob) -> Result<ChildOut, String> {
    use std::io::Write;
    use std::process::{Command, Stdio};
    let exe = std::env::current_exe().map_err(|e| format!("harness: current_exe: {e}"))?;
    let mut child = Command::new(exe).arg("c14-child").stdin(Stdio::piped()).stdout(Stdio::piped()).stderr(Stdio::piped()).spawn().map_err(|e| format!("harness: spawn: {e}"))?;
    let text = serde_json::to_string(job).unwrap();
    let mut si = child.stdin.take().unwrap();
    let writer = std::thread::spawn(move || {
        let _ = si.write_all(text.as_bytes());
    });
    let out = child.wait_with_output().map_err(|e| format!("harness: wait: {e}"))?;
    let _ = writer.join();
    if !out.status.success() {
        let err = String::from_utf8_lossy(&out.stderr);
        let tail: String = err.chars().rev().take(400).collect::<String>().chars().rev().collect();
        return Err(format!("child process with mask {:#04b} failed ({}): {tail}", job.mask, out.status));
    }
    serde_json::from_slice(&out.stdout).map_err(|e| format!("harness: unparsable child output: {e}"))
}

impl PartDyn for PerProcess {
    fn name(&self) -> &'static str {
        "masks_per_process"
    }
    fn run(&self, run: &mut Run) {
        use proptest::strategy::ValueTree;
        use proptest::test_runner::{Config, RngSeed, TestRunner};
        if run.failed() {
            return;
        }
        let t0 = std::time::Instant::now();
        let n = run.cases(1_600, 30_000) as usize;
        let nbig = run.cases(4, 60) as usize;
        let mut runner = TestRunner::new(Config { rng_seed: RngSeed::Fixed(run.part_seed(self.name(), 0)), failure_persistence: None, ..Config::default() });
        let strat = strategy(run.tier);
        let bstrat = big_strategy(run.tier);
        let cases: Vec<MaskCase> = (0..n).filter_map(|_| strat.new_tree(&mut runner).ok().map(|t| t.current())).collect();
        let bigs: Vec<BigXf> = (0..nbig).filter_map(|_| bstrat.new_tree(&mut runner).ok().map(|t| t.current())).collect();
        let batches = run.threads.max(1).min(cases.len().max(1));
        let per = cases.len().div_ceil(batches);
        let results: Vec<Result<(Stats, Option<(Value, String)>), String>> = std::thread::scope(|sc| {
            let mut hs = Vec::new();
            for (bi, chunk) in cases.chunks(per.max(1)).enumerate() {
                // the big transforms travel with the first batches, one each (memory)
                let big: Vec<BigXf> = bigs.iter().skip(bi).step_by(batches).cloned().collect();
                hs.push(sc.spawn(move || -> Result<(Stats, Option<(Value, String)>), String> {
                    let mut outs = Vec::new();
                    for mask in 0u8..4 {
                        let job = ChildJob { mask, cases: chunk.to_vec(), big: big.clone() };
                        let bytes: usize = big.iter().map(|b| 2f64.powf(b.bytes_q as f64 / 4.0) as usize * 2).max().unwrap_or(0);
                        outs.push(crate::runner::with_memory_budget(bytes + (64 << 20), || run_mask_child(&job))?);
                    }
                    let mut st = Stats::default();
                    for (i, c) in chunk.iter().enumerate() {
                        st.evaluations += 4;
                        let mut obs = Vec::new();
                        for (mask, o) in outs.iter().enumerate() {
                            match &o.cases[i] {
                                Ok(ob) => obs.push(ob.clone()),
                                Err(e) => return Ok((st, Some((serde_json::to_value(c).unwrap(), format!("mask {mask:#04b}: {e}"))))),
                            }
                        }
                        if st.samples.len() < 2 {
                            st.samples.push(serde_json::to_value(c).unwrap());
                        }
                        if let Err(f) = judge(c, &obs, &mut st) {
                            return Ok((st, Some((serde_json::to_value(c).unwrap(), f.msg))));
                        }
                    }
                    for (i, b) in big.iter().enumerate() {
                        st.evaluations += 4;
                        let obs: Vec<(u32, u64)> = outs.iter().map(|o| o.big[i]).collect();
                        if let Err(f) = judge_big(b, &obs, &mut st) {
                            return Ok((st, Some((serde_json::to_value(b).unwrap(), f.msg))));
                        }
                    }
                    Ok((st, None))
                }));
            }
            hs.into_iter().map(|h| h.join().unwrap_or_else(|_| Err("harness: worker panicked".into()))).collect()
        });
        let mut stats = Stats::default();
        let mut failure = None;
        for r in results {
            match r {
                Ok((st, f)) => {
                    stats.merge(st);
                    if failure.is_none() {
                        failure = f;
                    }
                }
                Err(e) => {
                    if crate::runner::is_harness_panic(&e) || e.starts_with("harness:") {
                        run.inconclusive.push(format!("masks_per_process: {e}"));
                    } else if failure.is_none() {
                        failure = Some((Value::Null, e));
                    }
                }
            }
        }
        // does switching the mask inside one process work? (if not, detection is cached: the in-process parts are skipped)
        {
            let probe = MaskCase { via: Via::Rs, cfg: Cfg { k: 3, r: 2, b: 64 }, data: DataSpec { mode: 0, seed: 7 }, recv: RecvSpec { n_mode: 0, pattern: 1, order: 0, seed: 7 }, decode: true };
            let _ = {
                let _g = MaskGuard::set(MASK_ALL);
                workload(&probe)
            };
            let off = {
                let _g = MaskGuard::set(0);
                workload(&probe)
            };
            if let Ok(o) = off {
                if o.trace != 0 && failure.is_none() {
                    INPROCESS_OK.store(false, std::sync::atomic::Ordering::Relaxed);
                    run.extra.insert("in_process_mask_switching".into(), "ineffective (runtime detection is cached per process); in-process parts skipped, per-process part decides".into());
                }
            }
        }
        run.record_part(self.name(), stats, false, "every mask in its own fresh process (mask set before anything else runs)", t0);
        if let Some((case, msg)) = failure {
            run.record_failure(self.name(), case, msg);
        }
    }
    fn replay(&self, case: &Value) -> Result<(), String> {
        let mut st = Stats::default();
        if let Ok(c) = serde_json::from_value::<MaskCase>(case.clone()) {
            let mut obs = Vec::new();
            for mask in 0u8..4 {
                let out = run_mask_child(&ChildJob { mask, cases: vec![c.clone()], big: vec![] })?;
                obs.push(out.cases.into_iter().next().ok_or("no output")??);
            }
            return judge(&c, &obs, &mut st).map_err(|f| f.msg);
        }
        let b: BigXf = serde_json::from_value(case.clone()).map_err(|e| e.to_string())?;
        let mut obs = Vec::new();
        for mask in 0u8..4 {
            let out = run_mask_child(&ChildJob { mask, cases: vec![], big: vec![b.clone()] })?;
            obs.push(out.big[0]);
        }
        judge_big(&b, &obs, &mut st).map_err(|f| f.msg)
    }
}

// ----------------------------------------------------------------------
// raw DefaultEngine transforms over working sets from 1 MiB to 512 MiB / 1 GiB (log-uniform):
// size-dependent dispatch (thresholds in bytes) is invisible to small workloads

#[derive(Clone, Debug, PartialEq, Eq, Hash, Serialize, Deserialize)]
pub struct BigXf {
    pub size_log: u8,
    /// log2 of the working set in bytes, times 4
    pub bytes_q: u8,
    pub seed: u64,
}

fn big_strategy(t: Tier) -> BoxedStrategy<BigXf> {
    let max_q = t.pick(4 * 29u8, 4 * 30u8);
    (prop_oneof![3 => 1u8..=3, 1 => 4u8..=8, 2 => 9u8..=16], prop_oneof![1 => (4 * 20u8)..=(4 * 26u8), 3 => (4 * 26u8)..=max_q], any::<u64>())
        .prop_map(|(size_log, bytes_q, seed)| (size_log, if size_log > 8 { bytes_q.min(4 * 24) } else { bytes_q }, seed)).prop_map(|(size_log, bytes_q, seed)| BigXf { size_log, bytes_q, seed }).boxed()
}

fn check_big(c: &BigXf, st: &mut Stats) -> CheckResult {
    if !INPROCESS_OK.load(std::sync::atomic::Ordering::Relaxed) {
        st.class("skipped_detection_is_cached_per_process");
        return Ok(());
    }
    let bytes = 2f64.powf(c.bytes_q as f64 / 4.0) as usize;
    crate::runner::with_memory_budget(bytes * 2 + (1 << 20), || {
        let mut obs = Vec::new();
        for mask in 0u8..4 {
            let _g = MaskGuard::set(mask);
            obs.push(big_observe(c));
        }
        judge_big(c, &obs, st)
    })?;
    st.evaluations += 3;
    Ok(())
}

/// ifft + fft + mul through a DefaultEngine built under the current mask: (trace, digest)
fn big_observe(c: &BigXf) -> (u32, u64) {
    let bytes = 2f64.powf(c.bytes_q as f64 / 4.0) as usize;
    let size = 1usize << c.size_log;
    let blocks = (bytes / size / 64).max(1);
    let mut buf = Buf::zeroed(size, blocks, 0);
    // cheap non-zero content
    let mut x = c.seed | 1;
    for blk in buf.data.iter_mut() {
        x ^= x << 13;
        x ^= x >> 7;
        x ^= x << 17;
        blk[..8].copy_from_slice(&x.to_le_bytes());
        blk[56..].copy_from_slice(&x.to_be_bytes());
    }
    let _ = take_trace();
    prims::xform(Eng::Default, Xform::Ifft, &mut buf, 0, size, size, 0);
    prims::xform(Eng::Default, Xform::Fft, &mut buf, 0, size, size, 0);
    prims::mul(Eng::Default, &mut buf.data[..blocks], 4242);
    (take_trace(), crate::runner::hash_of(&buf.data[..blocks.min(4096)]))
}

fn judge_big(c: &BigXf, obs: &[(u32, u64)], st: &mut Stats) -> CheckResult {
    let cpu = cpu_mask();
    let bytes = 2f64.powf(c.bytes_q as f64 / 4.0) as usize;
    let size = 1usize << c.size_log;
    let blocks = (bytes / size / 64).max(1);
    for mask in 0u8..4 {
        let eff = mask & cpu;
        let trace = obs[mask as usize].0;
        let best = if eff & MASK_AVX2 != 0 { Some(ISA_AVX2) } else if eff & MASK_SSSE3 != 0 { Some(ISA_SSSE3) } else { None };
        let allowed = match best {
            Some(isa) => trace_bit(isa, PRIM_FFT) | trace_bit(isa, PRIM_IFFT) | trace_bit(isa, PRIM_MUL),
            None => 0,
        };
        if trace != allowed {
            fail!(
                "mask {mask:#04b}: ifft + fft + mul of {size} shards x {} bytes ({} MiB working set) through DefaultEngine reached entry points {trace:#x}, expected exactly {allowed:#x} (bit = isa*4 + {{mul,fft,ifft,eval_poly}}; isa 0 = ssse3, 1 = avx2): not every primitive ran on the best reported ISA",
                blocks * 64, size * blocks * 64 >> 20
            );
        }
        st.classf("mask", format!("{mask:02b}"));
    }
    ensure!(obs.windows(2).all(|w| w[0].1 == w[1].1), "results of large transforms differ between feature masks");
    st.classf("working_set_MiB_log2", c.bytes_q as i64 / 4 - 20);
    st.nontrivial_key(crate::runner::hash_of(c));
    Ok(())
}
