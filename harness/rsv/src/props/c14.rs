//! C14 - the default engine runs only SIMD code the CPU reports and picks the best.

use crate::engines::*;
use crate::gen::{self, Cfg, DataSpec, RecvSpec};
use crate::hooks::*;
use crate::prims::{self, Buf, Xform};
use crate::props::PropDef;
use crate::runner::{CheckResult, GenPart, PartDyn, Run, Stats, Tier};
use crate::{ensure, fail};
use proptest::prelude::*;
use serde::{Deserialize, Serialize};
use serde_json::Value;

pub fn def() -> PropDef {
    PropDef {
        id: "C14",
        rule: "all four subsets of {ssse3, avx2} (exhaustive; intersected with what the CPU reports) x generated workloads (encode + decode rounds through ReedSolomonEncoder/Decoder, DefaultRate<DefaultEngine>, the one-shot functions, and raw DefaultEngine primitives; configurations small..medium, sizes with tails), plus raw DefaultEngine transforms over working sets drawn log-uniformly from 1 MiB to 512 MiB (quick) / 1 GiB (thorough). oracle: ISA trace recorded by the hooks in every #[target_feature] entry point: no entry point of an ISA outside the mask is reached; for best = max(mask) every primitive the workload necessarily exercises was executed by the best ISA and no weaker SIMD ISA ran; empty mask => no SIMD entry point at all; output bytes identical under all masks and equal to the explicit NoSimd engine. non-trivial: mask != full and the workload contains a decode; distinct by (workload, mask)",
        assumptions: &[
            "decides the x86 selection logic; the AArch64 branch is cfg-ed out on this host",
            "calibration: explicit Avx2 / Ssse3 engines must produce their trace bits, otherwise the check is inconclusive (exit 2), never a violation",
        ],
        parts,
    }
}

fn parts() -> Vec<Box<dyn PartDyn>> {
    vec![
        Box::new(Calibration),
        Box::new(GenPart { name: "masks", quick: 10_000, thorough: 60_000, shrink_iters: 300, strat: strategy, check }),
        Box::new(GenPart { name: "big_transforms", quick: 12, thorough: 300, shrink_iters: 20, strat: big_strategy, check: check_big }),
    ]
}

struct Calibration;

impl PartDyn for Calibration {
    fn name(&self) -> &'static str {
        "calibration"
    }
    fn run(&self, run: &mut Run) {
        let _ = take_trace();
        for (eng, isa, name) in [(Eng::Avx2, ISA_AVX2, "avx2"), (Eng::Ssse3, ISA_SSSE3, "ssse3")] {
            if !eng.available() {
                run.extra.insert(format!("cpu_has_{name}"), false.into());
                continue;
            }
            run.extra.insert(format!("cpu_has_{name}"), true.into());
            let data = DataSpec { mode: 0, seed: 1 }.expand(3, 64);
            let rec = encode_all(Kind::High, eng, 3, 2, 64, &data);
            let given = [Given { rec: true, idx: 0 }, Given { rec: false, idx: 1 }, Given { rec: true, idx: 1 }];
            let ok = rec.is_ok() && decode_all(Kind::High, eng, 3, 2, 64, &given, &data, rec.as_ref().unwrap()).is_ok();
            let t = take_trace();
            let want = trace_bit(isa, PRIM_MUL) | trace_bit(isa, PRIM_FFT) | trace_bit(isa, PRIM_IFFT) | trace_bit(isa, PRIM_EVAL_POLY);
            if !ok || t & want != want {
                run.inconclusive.push(format!("calibration: explicit {name} engine did not produce its trace bits (trace {t:#x}); hook sites missing in this tree"));
            }
        }
    }
    fn replay(&self, _case: &Value) -> Result<(), String> {
        Ok(())
    }
}

#[derive(Clone, Copy, Debug, PartialEq, Eq, Hash, Serialize, Deserialize)]
pub enum Via {
    Rs,
    DefaultRate,
    OneShot,
    Prims,
}

#[derive(Clone, Debug, PartialEq, Eq, Hash, Serialize, Deserialize)]
pub struct MaskCase {
    pub via: Via,
    pub cfg: Cfg,
    pub data: DataSpec,
    pub recv: RecvSpec,
    pub decode: bool,
}

fn strategy(t: Tier) -> BoxedStrategy<MaskCase> {
    (
        prop_oneof![Just(Via::Rs), Just(Via::DefaultRate), Just(Via::OneShot), Just(Via::Prims)],
        gen::cfg(Kind::Default, t.pick(300, 1000)),
        gen::data_spec(),
        gen::recv_spec(),
        prop::bool::weighted(0.8),
    )
        .prop_map(|(via, (cfg, _), data, recv, decode)| MaskCase { via, cfg, data, recv, decode })
        .boxed()
}

struct Obs {
    trace: u32,
    bytes: u64,
    decoded_with_loss: bool,
}

fn workload(c: &MaskCase) -> Result<Obs, String> {
    let Cfg { k, r, b } = c.cfg;
    let _ = take_trace();
    let mut decoded_with_loss = false;
    let digest;
    match c.via {
        Via::Prims => {
            // raw DefaultEngine primitives (engine constructed under the current mask)
            let size = (k + r).next_power_of_two().min(256);
            let mut buf = Buf::zeroed(size, b.div_ceil(64), 0);
            let mut rng = gen::Xs::new(c.data.seed);
            for blk in buf.data.iter_mut() {
                rng.fill(blk);
            }
            prims::xform(Eng::Default, Xform::Ifft, &mut buf, 0, size, size, 0);
            prims::xform(Eng::Default, Xform::Fft, &mut buf, 0, size, size, 0);
            prims::mul(Eng::Default, &mut buf.data[..], (c.data.seed as u16) | 1);
            let mut er: Box<[u16; 65536]> = vec![0u16; 65536].into_boxed_slice().try_into().unwrap();
            for i in 0..k {
                er[i * 3 % 65536] = 1;
            }
            prims::eval_poly(Eng::Default, &mut er, 65536);
            decoded_with_loss = true;
            digest = crate::runner::hash_of(&(buf.data, &er[..]));
        }
        _ => {
            let data = c.data.expand(k, b);
            let given = c.recv.arrival(k, r);
            let (rec, restored) = match c.via {
                Via::OneShot => {
                    let rec = reed_solomon_simd::encode(k, r, &data).map_err(|e| format!("encode: {e:?}"))?;
                    let restored = if c.decode {
                        let o: Vec<(usize, &Vec<u8>)> = given.iter().filter(|g| !g.rec).map(|g| (g.idx, &data[g.idx])).collect();
                        let rv: Vec<(usize, &Vec<u8>)> = given.iter().filter(|g| g.rec).map(|g| (g.idx, &rec[g.idx])).collect();
                        Some(reed_solomon_simd::decode(k, r, o, rv).map_err(|e| format!("decode: {e:?}"))?.into_iter().collect::<std::collections::BTreeMap<_, _>>())
                    } else {
                        None
                    };
                    (rec, restored)
                }
                _ => {
                    let kind = if c.via == Via::Rs { Kind::Rs } else { Kind::Default };
                    let rec = encode_all(kind, Eng::Default, k, r, b, &data).map_err(|e| format!("encode: {e:?}"))?;
                    let restored = if c.decode { Some(decode_all(kind, Eng::Default, k, r, b, &given, &data, &rec).map_err(|e| format!("decode: {e:?}"))?) } else { None };
                    (rec, restored)
                }
            };
            if let Some(m) = &restored {
                decoded_with_loss = !m.is_empty();
            }
            digest = crate::runner::hash_of(&(rec, restored));
        }
    }
    Ok(Obs { trace: take_trace(), bytes: digest, decoded_with_loss })
}

fn isa_bits(isa: u32) -> u32 {
    0xF << (isa * 4)
}

fn check(c: &MaskCase, st: &mut Stats) -> CheckResult {
    let cpu = (if Eng::Ssse3.available() { MASK_SSSE3 } else { 0 }) | (if Eng::Avx2.available() { MASK_AVX2 } else { 0 });
    let mut digests = Vec::new();
    for mask in 0u8..4 {
        let eff = mask & cpu;
        let obs = {
            let _g = MaskGuard::set(mask);
            workload(c).map_err(|e| format!("mask {mask:#04b}: {e}"))?
        };
        // nothing outside the mask
        if eff & MASK_AVX2 == 0 {
            ensure!(obs.trace & isa_bits(ISA_AVX2) == 0, "mask {mask:#04b} (avx2 not reported): AVX2 code was executed (trace {:#x}) via {:?}", obs.trace, c.via);
        }
        if eff & MASK_SSSE3 == 0 {
            ensure!(obs.trace & isa_bits(ISA_SSSE3) == 0, "mask {mask:#04b} (ssse3 not reported): SSSE3 code was executed (trace {:#x}) via {:?}", obs.trace, c.via);
        }
        // the best reported ISA does everything the workload necessarily needs
        let best = if eff & MASK_AVX2 != 0 { Some(ISA_AVX2) } else if eff & MASK_SSSE3 != 0 { Some(ISA_SSSE3) } else { None };
        match best {
            None => ensure!(obs.trace == 0, "no SIMD feature reported but SIMD entry points ran (trace {:#x})", obs.trace),
            Some(isa) => {
                let mut need = trace_bit(isa, PRIM_FFT) | trace_bit(isa, PRIM_IFFT);
                if obs.decoded_with_loss {
                    need |= trace_bit(isa, PRIM_EVAL_POLY) | trace_bit(isa, PRIM_MUL);
                }
                if obs.trace & need != need {
                    fail!(
                        "mask {mask:#04b}: best reported ISA is {} but not every primitive ran on it: trace {:#x}, required bits {need:#x} (bit = isa*4 + {{mul,fft,ifft,eval_poly}}) via {:?}",
                        if isa == ISA_AVX2 { "avx2" } else { "ssse3" }, obs.trace, c.via
                    );
                }
                let weaker = if isa == ISA_AVX2 { isa_bits(ISA_SSSE3) } else { 0 };
                ensure!(obs.trace & weaker == 0, "mask {mask:#04b}: a weaker SIMD ISA ran although avx2 is reported (trace {:#x}) via {:?}", obs.trace, c.via);
            }
        }
        digests.push(obs.bytes);
        if eff != cpu && obs.decoded_with_loss {
            st.nontrivial_key(crate::runner::hash_of(&(c, mask)));
        }
        st.classf("mask", format!("{mask:02b}"));
    }
    ensure!(digests.windows(2).all(|w| w[0] == w[1]), "results differ between feature masks: digests {digests:x?} via {:?}", c.via);
    // equal to the explicit portable engine
    if c.via != Via::Prims && c.via != Via::OneShot {
        let Cfg { k, r, b } = c.cfg;
        let data = c.data.expand(k, b);
        let given = c.recv.arrival(k, r);
        let rec = encode_all(Kind::Default, Eng::NoSimd, k, r, b, &data).map_err(|e| format!("NoSimd encode: {e:?}"))?;
        let restored = if c.decode { Some(decode_all(Kind::Default, Eng::NoSimd, k, r, b, &given, &data, &rec).map_err(|e| format!("NoSimd decode: {e:?}"))?) } else { None };
        ensure!(crate::runner::hash_of(&(rec, restored)) == digests[0], "DefaultEngine results differ from the explicit NoSimd engine");
    }
    st.classf("via", format!("{:?}", c.via));
    st.classf("decode", c.decode);
    st.evaluations += 3; // one evaluation per (workload, mask)
    Ok(())
}

// ----------------------------------------------------------------------
// raw DefaultEngine transforms over working sets from 1 MiB to 512 MiB / 1 GiB (log-uniform):
// size-dependent dispatch (thresholds in bytes) is invisible to small workloads

#[derive(Clone, Debug, PartialEq, Eq, Hash, Serialize, Deserialize)]
pub struct BigXf {
    pub size_log: u8,
    /// log2 of the working set in bytes, times 4
    pub bytes_q: u8,
    pub seed: u64,
}

fn big_strategy(t: Tier) -> BoxedStrategy<BigXf> {
    let max_q = t.pick(4 * 29u8, 4 * 30u8);
    (prop_oneof![3 => 1u8..=3, 1 => 4u8..=8], prop_oneof![1 => (4 * 20u8)..=(4 * 26u8), 3 => (4 * 26u8)..=max_q], any::<u64>()).prop_map(|(size_log, bytes_q, seed)| BigXf { size_log, bytes_q, seed }).boxed()
}

fn check_big(c: &BigXf, st: &mut Stats) -> CheckResult {
    let bytes = 2f64.powf(c.bytes_q as f64 / 4.0) as usize;
    crate::runner::with_memory_budget(bytes * 2 + (1 << 20), || check_big_inner(c, bytes, st))
}

fn check_big_inner(c: &BigXf, bytes: usize, st: &mut Stats) -> CheckResult {
    let cpu = (if Eng::Ssse3.available() { MASK_SSSE3 } else { 0 }) | (if Eng::Avx2.available() { MASK_AVX2 } else { 0 });
    let size = 1usize << c.size_log;
    let blocks = (bytes / size / 64).max(1);
    let mut input = Buf::zeroed(size, blocks, 0);
    // cheap non-zero content
    let mut x = c.seed | 1;
    for blk in input.data.iter_mut() {
        x ^= x << 13;
        x ^= x >> 7;
        x ^= x << 17;
        blk[..8].copy_from_slice(&x.to_le_bytes());
        blk[56..].copy_from_slice(&x.to_be_bytes());
    }
    let mut digests = Vec::new();
    for mask in 0u8..4 {
        let eff = mask & cpu;
        let mut buf = input.clone();
        let trace = {
            let _g = MaskGuard::set(mask);
            let _ = take_trace();
            prims::xform(Eng::Default, Xform::Ifft, &mut buf, 0, size, size, 0);
            prims::xform(Eng::Default, Xform::Fft, &mut buf, 0, size, size, 0);
            prims::mul(Eng::Default, &mut buf.data[..blocks], 4242);
            take_trace()
        };
        let best = if eff & MASK_AVX2 != 0 { Some(ISA_AVX2) } else if eff & MASK_SSSE3 != 0 { Some(ISA_SSSE3) } else { None };
        let allowed = match best {
            Some(isa) => trace_bit(isa, PRIM_FFT) | trace_bit(isa, PRIM_IFFT) | trace_bit(isa, PRIM_MUL),
            None => 0,
        };
        if trace != allowed {
            fail!(
                "mask {mask:#04b}: ifft + fft + mul of {size} shards x {} bytes ({} MiB working set) through DefaultEngine reached entry points {trace:#x}, expected exactly {allowed:#x} (bit = isa*4 + {{mul,fft,ifft,eval_poly}}; isa 0 = ssse3, 1 = avx2): not every primitive ran on the best reported ISA",
                blocks * 64, size * blocks * 64 >> 20
            );
        }
        digests.push(crate::runner::hash_of(&buf.data[..blocks.min(4096)]));
        st.classf("mask", format!("{mask:02b}"));
    }
    ensure!(digests.windows(2).all(|w| w[0] == w[1]), "results of large transforms differ between feature masks");
    st.classf("working_set_MiB_log2", c.bytes_q as i64 / 4 - 20);
    st.evaluations += 3;
    st.nontrivial_case("big_transforms", c);
    Ok(())
}
