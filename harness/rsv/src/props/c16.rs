//! C16 - independent codec objects can be used concurrently from any threads.

use crate::engines::*;
use crate::gen::{self, Cfg};
use crate::history::{shard_bytes, Call, Obj};
use crate::props::PropDef;
use crate::runner::{CheckResult, Fail, GenPart, PartDyn, Stats, Tier};
use crate::{ensure, fail};
use proptest::prelude::*;
use serde::{Deserialize, Serialize};
use std::collections::BTreeMap;
use std::io::{Read, Write};
use std::process::{Command, Stdio};
use std::sync::mpsc;
use std::time::{Duration, Instant};

pub fn def() -> PropDef {
    PropDef {
        id: "C16",
        rule: "generated thread programs, each executed in a FRESH child process (so that every program races the lazy initialisation of the global tables): 2..12 threads released by a common barrier with generated start skews; per thread a list of actions: construct an engine (Naive / NoSimd / Ssse3 / Avx2 / Default - each first-touches a different subset of the exp-log, skew, Mul16, Mul128 and LogWalsh tables) or run an encode or decode round on an own object, optionally handing the object over a channel to another thread after j of its adds. oracle: every round's output digest equals the digest of the same round executed sequentially in the parent; the child must exit 0 (a panic anywhere, including lazy-initialisation poisoning, fails it). A child exceeding the watchdog is reported as inconclusive (exit 2), never as a violation. non-trivial: >=2 threads whose first actions touch different tables, or a hand-over in the middle of a round; distinct by full program",
        assumptions: &[
            "stress exploration: the OS scheduler picks the interleavings, the harness only provokes collisions (barrier, skews, fresh process per program); this cannot enumerate schedules",
        ],
        parts,
    }
}

#[derive(Clone, Debug, PartialEq, Eq, Hash, Serialize, Deserialize)]
pub enum Action {
    Construct(Eng),
    Round { id: u32, dec: bool, kind: Kind, eng: Eng, cfg: Cfg, seed: u64, handover: Option<(u8, u16)> },
}

#[derive(Clone, Debug, PartialEq, Eq, Hash, Serialize, Deserialize)]
pub struct ThreadProg {
    pub spin: u32,
    pub actions: Vec<Action>,
}

#[derive(Clone, Debug, PartialEq, Eq, Hash, Serialize, Deserialize)]
pub struct Program {
    pub threads: Vec<ThreadProg>,
}

fn action() -> BoxedStrategy<Action> {
    let small_cfg = (1usize..=24, 1usize..=24, prop_oneof![Just(2usize), Just(64), Just(66), Just(130)]).prop_map(|(k, r, b)| Cfg { k, r, b });
    prop_oneof![
        2 => gen::engine().prop_map(Action::Construct),
        5 => (any::<bool>(), gen::kind_any(), gen::engine(), small_cfg, any::<u64>(), prop::option::weighted(0.35, (any::<u8>(), any::<u16>()))).prop_map(
            |(dec, kind, eng, cfg, seed, handover)| {
                let eng = if kind == Kind::Rs { Eng::Default } else { eng };
                // orient the configuration so that the family supports it (all small: always supported)
                Action::Round { id: 0, dec, kind, eng, cfg, seed, handover }
            }
        ),
    ]
    .boxed()
}

fn strategy(_t: Tier) -> BoxedStrategy<Program> {
    prop::collection::vec((0u32..2000, prop::collection::vec(action(), 1..=4)), 2..=12)
        .prop_map(|ts| {
            let mut id = 0u32;
            let threads = ts
                .into_iter()
                .map(|(spin, mut actions)| {
                    for a in actions.iter_mut() {
                        if let Action::Round { id: i, .. } = a {
                            *i = id;
                            id += 1;
                        }
                    }
                    ThreadProg { spin, actions }
                })
                .collect();
            Program { threads }
        })
        .boxed()
}

fn parts() -> Vec<Box<dyn PartDyn>> {
    vec![Box::new(GenPart { name: "programs", quick: 320, thorough: 6_000, shrink_iters: 60, strat: strategy, check })]
}

// ----------------------------------------------------------------------
// executing rounds

struct Pending {
    id: u32,
    obj: Obj,
    calls: Vec<Call>,
}

fn round_calls(dec: bool, c: Cfg, seed: u64) -> Vec<Call> {
    let mut v = Vec::new();
    if dec {
        let nrec = c.k.min(c.r);
        for i in nrec..c.k {
            v.push(Call::AddO(i, shard_bytes(seed, false, i, c.b)));
        }
        for i in 0..nrec {
            v.push(Call::AddR(i, shard_bytes(seed, true, i, c.b)));
        }
    } else {
        for i in 0..c.k {
            v.push(Call::AddO(i, shard_bytes(seed, false, i, c.b)));
        }
    }
    v.push(Call::Finish { read: true });
    v
}

fn finish(mut p: Pending) -> Result<(u32, u64), String> {
    let mut last = String::new();
    for call in &p.calls {
        let out = p.obj.apply(call)?;
        if !out.is_ok() {
            return Err(format!("round {}: call failed: {}", p.id, out.brief()));
        }
        last = out.brief();
    }
    Ok((p.id, crate::runner::hash_of(&last)))
}

fn start(action: &Action) -> Result<Option<(Pending, Option<(u8, u16)>)>, String> {
    match action {
        Action::Construct(e) => {
            crate::with_engine!(*e, E, {
                let _ = <E as Mk>::mk();
            });
            Ok(None)
        }
        Action::Round { id, dec, kind, eng, cfg, seed, handover } => {
            let obj = Obj::make(*dec, *kind, *eng, *cfg).map_err(|e| format!("round {id}: construction failed: {e:?}"))?;
            Ok(Some((Pending { id: *id, obj, calls: round_calls(*dec, *cfg, *seed) }, *handover)))
        }
    }
}

/// sequential reference: every round on the calling thread
pub fn run_sequential(p: &Program) -> Result<BTreeMap<u32, u64>, String> {
    let mut out = BTreeMap::new();
    for t in &p.threads {
        for a in &t.actions {
            if let Some((pending, _)) = start(a)? {
                let (id, d) = finish(pending)?;
                out.insert(id, d);
            }
        }
    }
    Ok(out)
}

/// the child: really concurrent
pub fn run_concurrent(p: &Program) -> Result<BTreeMap<u32, u64>, String> {
    let n = p.threads.len();
    let barrier = std::sync::Barrier::new(n);
    let mut txs = Vec::new();
    let mut rxs = Vec::new();
    for _ in 0..n {
        let (tx, rx) = mpsc::channel::<Pending>();
        txs.push(tx);
        rxs.push(Some(rx));
    }
    let results: Vec<Result<Vec<(u32, u64)>, String>> = std::thread::scope(|sc| {
        let mut hs = Vec::new();
        for (ti, t) in p.threads.iter().enumerate() {
            let rx = rxs[ti].take().unwrap();
            let txs: Vec<mpsc::Sender<Pending>> = txs.clone();
            let barrier = &barrier;
            hs.push(sc.spawn(move || -> Result<Vec<(u32, u64)>, String> {
                let mut done = Vec::new();
                barrier.wait();
                let mut x = 0u64;
                for i in 0..t.spin {
                    x = x.wrapping_add(std::hint::black_box(i as u64));
                    std::hint::spin_loop();
                }
                std::hint::black_box(x);
                for a in &t.actions {
                    if let Some((mut pending, handover)) = start(a)? {
                        match handover {
                            Some((to, after)) if n > 1 => {
                                let target = (ti + 1 + to as usize % (n - 1)) % n;
                                let adds = pending.calls.len() - 1;
                                let j = gen::idx_map(after, adds);
                                let rest = pending.calls.split_off(j);
                                for call in &pending.calls {
                                    let out = pending.obj.apply(call)?;
                                    if !out.is_ok() {
                                        return Err(format!("round {}: add failed before hand-over: {}", pending.id, out.brief()));
                                    }
                                }
                                pending.calls = rest;
                                txs[target].send(pending).map_err(|_| "hand-over channel closed".to_string())?;
                            }
                            _ => done.push(finish(pending)?),
                        }
                    }
                }
                drop(txs);
                // objects handed over to this thread in the middle of their round
                for pending in rx {
                    done.push(finish(pending)?);
                }
                Ok(done)
            }));
        }
        drop(txs);
        hs.into_iter().map(|h| h.join().unwrap_or_else(|_| Err("thread panicked".to_string()))).collect()
    });
    let mut out = BTreeMap::new();
    for r in results {
        for (id, d) in r? {
            out.insert(id, d);
        }
    }
    Ok(out)
}

/// entry point of `rsv c16-child`: program on stdin, digests on stdout
pub fn child_main() -> i32 {
    let mut text = String::new();
    if std::io::stdin().read_to_string(&mut text).is_err() {
        return 3;
    }
    let Ok(p) = serde_json::from_str::<Program>(&text) else { return 3 };
    match run_concurrent(&p) {
        Ok(m) => {
            println!("{}", serde_json::to_string(&m).unwrap());
            0
        }
        Err(e) => {
            println!("ERROR {e}");
            1
        }
    }
}

pub const WATCHDOG: Duration = Duration::from_secs(60);

pub enum ChildOutcome {
    Digests(BTreeMap<u32, u64>),
    Failed(String),
    Timeout,
    Spawn(String),
}

pub fn run_child(p: &Program, exe: &std::path::Path, extra_env: &[(&str, &str)]) -> ChildOutcome {
    let mut cmd = Command::new(exe);
    cmd.arg("c16-child").stdin(Stdio::piped()).stdout(Stdio::piped()).stderr(Stdio::piped());
    for (k, v) in extra_env {
        cmd.env(k, v);
    }
    let mut child = match cmd.spawn() {
        Ok(c) => c,
        Err(e) => return ChildOutcome::Spawn(e.to_string()),
    };
    let text = serde_json::to_string(p).unwrap();
    if let Some(mut si) = child.stdin.take() {
        let _ = si.write_all(text.as_bytes());
    }
    let t0 = Instant::now();
    loop {
        match child.try_wait() {
            Ok(Some(status)) => {
                let mut out = String::new();
                let mut err = String::new();
                if let Some(mut so) = child.stdout.take() {
                    let _ = so.read_to_string(&mut out);
                }
                if let Some(mut se) = child.stderr.take() {
                    let _ = se.read_to_string(&mut err);
                }
                if status.success() {
                    return match serde_json::from_str::<BTreeMap<u32, u64>>(out.trim()) {
                        Ok(m) => ChildOutcome::Digests(m),
                        Err(_) => ChildOutcome::Failed(format!("unparsable child output: {}", &out[..out.len().min(300)])),
                    };
                }
                let tail: String = err.chars().rev().take(600).collect::<String>().chars().rev().collect();
                return ChildOutcome::Failed(format!("child exit status {status}; stdout: {}; stderr tail: {tail}", out.trim()));
            }
            Ok(None) => {
                if t0.elapsed() > WATCHDOG {
                    let _ = child.kill();
                    let _ = child.wait();
                    return ChildOutcome::Timeout;
                }
                std::thread::sleep(Duration::from_millis(2));
            }
            Err(e) => return ChildOutcome::Spawn(e.to_string()),
        }
    }
}

fn first_tables(a: &Action) -> u8 {
    // bit set of tables first-touched: 1 exp/log, 2 skew, 4 mul16, 8 mul128, 16 log_walsh
    let eng_bits = |e: Eng| match e {
        Eng::Naive => 1 | 2,
        Eng::NoSimd => 1 | 2 | 4,
        Eng::Ssse3 | Eng::Avx2 | Eng::Neon | Eng::Default => 1 | 2 | 8,
    };
    match a {
        Action::Construct(e) => eng_bits(*e),
        Action::Round { dec, eng, .. } => eng_bits(*eng) | if *dec { 16 } else { 0 },
    }
}

fn check(p: &Program, st: &mut Stats) -> CheckResult {
    let expected = run_sequential(p).map_err(|e| format!("sequential execution in the parent failed: {e}"))?;
    let exe = std::env::current_exe().map_err(|e| format!("harness: current_exe: {e}"))?;
    match run_child(p, &exe, &[]) {
        ChildOutcome::Digests(got) => {
            ensure!(got.len() == expected.len(), "concurrent run completed {} rounds, sequential run {}", got.len(), expected.len());
            for (id, d) in &expected {
                match got.get(id) {
                    Some(g) if g == d => {}
                    Some(_) => fail!("round {id}: result of concurrent execution differs from sequential execution of the same round"),
                    None => fail!("round {id}: missing in the concurrent run"),
                }
            }
        }
        ChildOutcome::Failed(m) => fail!("concurrent execution failed (sequential execution of the same rounds succeeds): {m}"),
        ChildOutcome::Timeout => {
            // suspected deadlock: reported as inconclusive after the run, never shrunk, never a violation
            st.count("inconclusive_watchdog", 1);
            let dir = format!("{}/replays", crate::runner::verif_dir());
            let _ = std::fs::create_dir_all(&dir);
            let _ = std::fs::write(format!("{dir}/C16-watchdog-{:016x}.json", crate::runner::hash_of(p)), serde_json::to_string_pretty(p).unwrap());
            return Ok(());
        }
        ChildOutcome::Spawn(e) => return Err(Fail { sig: None, msg: format!("harness: cannot run child process: {e}") }),
    }
    let firsts: std::collections::BTreeSet<u8> = p.threads.iter().filter_map(|t| t.actions.first()).map(first_tables).collect();
    let handovers = p.threads.iter().flat_map(|t| &t.actions).filter(|a| matches!(a, Action::Round { handover: Some(_), .. })).count();
    st.classf("threads", p.threads.len());
    st.classf("distinct_first_touch_sets", firsts.len());
    st.classf("handovers", handovers.min(4));
    if firsts.len() >= 2 || handovers > 0 {
        st.nontrivial_case("programs", p);
    }
    Ok(())
}
