//! C16 - independent codec objects can be used concurrently from any threads.

use crate::engines::*;
use crate::gen::{self, Cfg};
use crate::history::{shard_bytes, Call, Obj};
use crate::props::PropDef;
use crate::runner::{CheckResult, Fail, GenPart, PartDyn, Stats, Tier};
use crate::{ensure, fail};
use proptest::prelude::*;
use serde::{Deserialize, Serialize};
use std::collections::BTreeMap;
use std::io::{Read, Write};
use std::process::{Command, Stdio};
use std::sync::mpsc;
use std::time::{Duration, Instant};

pub fn def() -> PropDef {
    PropDef {
        id: "C16",
        rule: "generated thread programs, each executed in a FRESH child process (so that every program races the lazy initialisation of the global tables): 2..12 threads released by a common barrier with generated start skews; per thread a list of actions: construct an engine (Naive / NoSimd / Ssse3 / Avx2 / Default - each first-touches a different subset of the exp-log, skew, Mul16, Mul128 and LogWalsh tables) or run an encode or decode round (1..12 repetitions) on own objects, drawn from a per-program palette of 1..3 kinds of work so that threads do the same and different work side by side, optionally handing the object over a channel to another thread after j of its adds. oracle: every round's output digest equals the digest of the same round executed sequentially in the parent; the child must exit 0 (a panic anywhere, including lazy-initialisation poisoning, fails it). Two programs run 48 threads at once, two more 160 and 300 threads. Rounds may also be completed while their thread exits (object kept in a thread-local of the harness, encode()/decode() inside its destructor; holder registered before or after the thread's other codec calls): one action in ten of the generated programs and four hammer programs. Four programs make 4 threads call one-shot encode / decode with shard iterators that wait for each other inside the call. A child exceeding the watchdog (suspected deadlock) is reported as inconclusive (exit 2), never as a violation. non-trivial: >=2 threads whose first actions touch different tables, or a hand-over in the middle of a round; distinct by full program",
        assumptions: &[
            "stress exploration: the OS scheduler picks the interleavings, the harness only provokes collisions (barrier, skews, fresh process per program); this cannot enumerate schedules",
        ],
        parts,
    }
}

#[derive(Clone, Debug, PartialEq, Eq, Hash, Serialize, Deserialize)]
pub enum Action {
    Construct(Eng),
    /// the same round `repeat` times on the same object; every repetition must give the same result
    Round { id: u32, dec: bool, kind: Kind, eng: Eng, cfg: Cfg, seed: u64, repeat: u8, handover: Option<(u8, u16)> },
    /// one-shot encode()/decode() whose shard iterator waits, at its first item, until every other thread of
    /// the program is inside its own one-shot call too (calls that can only make progress side by side)
    OneShotRendezvous { id: u32, dec: bool, cfg: Cfg, seed: u64, wait_at: u8 },
    /// a round that is completed WHILE ITS THREAD EXITS: the object is built and given its shards by the thread,
    /// kept in a thread-local of the harness, and encode()/decode() runs in that thread-local's destructor
    /// (a worker that flushes pending work when it is torn down). `early`: the holder is registered before the
    /// thread's first codec call (so it is destroyed after anything the crate may have registered) or after the
    /// thread's other actions
    RoundAtExit { id: u32, dec: bool, kind: Kind, eng: Eng, cfg: Cfg, seed: u64, early: bool },
}

struct AtExit {
    pending: Option<Pending>,
    tx: mpsc::Sender<Result<(u32, u64), String>>,
}

impl Drop for AtExit {
    fn drop(&mut self) {
        if let Some(p) = self.pending.take() {
            let _ = self.tx.send(finish(p));
        }
    }
}

thread_local! {
    static AT_EXIT: std::cell::RefCell<Vec<AtExit>> = const { std::cell::RefCell::new(Vec::new()) };
}

/// builds the object, makes all adds now and leaves the final encode()/decode() to the thread-local destructor
fn park_at_exit(a: &Action, tx: &mpsc::Sender<Result<(u32, u64), String>>) -> Result<(), String> {
    let Action::RoundAtExit { id, dec, kind, eng, cfg, seed, .. } = a else { return Ok(()) };
    // first access registers the destructor of the holder
    AT_EXIT.with(|v| v.borrow_mut().reserve(1));
    let mut obj = Obj::make(*dec, *kind, *eng, *cfg).map_err(|e| format!("round {id}: construction failed: {e:?}"))?;
    let mut calls = round_calls(*dec, *cfg, *seed);
    let fin = calls.split_off(calls.len() - 1);
    for call in &calls {
        let out = obj.apply(call)?;
        if !out.is_ok() {
            return Err(format!("round {id}: add failed: {}", out.brief()));
        }
    }
    let pending = Pending { id: *id, obj, calls: fin, all_calls: std::sync::Arc::new(Vec::new()), again: None };
    AT_EXIT.with(|v| v.borrow_mut().push(AtExit { pending: Some(pending), tx: tx.clone() }));
    Ok(())
}

#[derive(Clone, Debug, PartialEq, Eq, Hash, Serialize, Deserialize)]
pub struct ThreadProg {
    pub spin: u32,
    pub actions: Vec<Action>,
}

#[derive(Clone, Debug, PartialEq, Eq, Hash, Serialize, Deserialize)]
pub struct Program {
    pub threads: Vec<ThreadProg>,
}

/// (dec, kind, eng, cfg, seed): one kind of work; a program draws all its rounds from a small palette of
/// these so that threads repeat the same and different kinds of work next to each other (this is what
/// exposes state shared between objects, e.g. a process-wide cache keyed by the work)
type Spec = (bool, Kind, Eng, Cfg, u64);

fn spec() -> BoxedStrategy<Spec> {
    let small_cfg = (1usize..=24, 1usize..=24, prop_oneof![Just(2usize), Just(64), Just(66), Just(130)]).prop_map(|(k, r, b)| Cfg { k, r, b });
    (prop::bool::weighted(0.6), gen::kind_any(), gen::engine(), small_cfg, any::<u64>())
        .prop_map(|(dec, kind, eng, cfg, seed)| (dec, kind, if kind == Kind::Rs { Eng::Default } else { eng }, cfg, seed))
        .boxed()
}

fn strategy(_t: Tier) -> BoxedStrategy<Program> {
    let action = prop_oneof![
        2 => gen::engine().prop_map(|e| (None, e, 1u8, None)),
        6 => (any::<u8>(), prop_oneof![3 => Just(1u8), 2 => 2u8..=12], prop::option::weighted(0.3, (any::<u8>(), any::<u16>()))).prop_map(|(pi, rep, h)| (Some(pi), Eng::Naive, rep, h)),
        // repeat 0 encodes "complete this round while the thread exits" (hand-over field reused: Some = early holder)
        1 => (any::<u8>(), any::<bool>()).prop_map(|(pi, early)| (Some(pi), Eng::Naive, 0u8, if early { Some((0u8, 0u16)) } else { None })),
    ];
    (prop::collection::vec(spec(), 1..=3), prop::collection::vec((0u32..2000, prop::collection::vec(action, 1..=4)), 2..=12))
        .prop_map(|(palette, ts)| {
            let mut id = 0u32;
            let threads = ts
                .into_iter()
                .map(|(spin, acts)| {
                    let actions = acts
                        .into_iter()
                        .map(|(pi, e, repeat, handover)| match pi {
                            None => Action::Construct(e),
                            Some(pi) => {
                                let (dec, kind, eng, cfg, seed) = palette[pi as usize % palette.len()];
                                id += 1;
                                if repeat == 0 {
                                    Action::RoundAtExit { id: id - 1, dec, kind, eng, cfg, seed, early: handover.is_some() }
                                } else {
                                    Action::Round { id: id - 1, dec, kind, eng, cfg, seed, repeat, handover }
                                }
                            }
                        })
                        .collect();
                    ThreadProg { spin, actions }
                })
                .collect();
            Program { threads }
        })
        .boxed()
}

fn parts() -> Vec<Box<dyn PartDyn>> {
    vec![
        Box::new(GenPart { name: "programs", quick: 320, thorough: 6_000, shrink_iters: 60, strat: strategy, check }),
        Box::new(Hammer),
        Box::new(Tsan),
    ]
}

// ----------------------------------------------------------------------
// thorough only: the same generated programs with the child built under ThreadSanitizer
// (nightly, -Zbuild-std); a reported data race makes the child exit with code 66

struct Tsan;

static TSAN_BIN: std::sync::OnceLock<Option<std::path::PathBuf>> = std::sync::OnceLock::new();

fn harness_dir() -> Option<std::path::PathBuf> {
    let exe = std::env::current_exe().ok()?;
    // <harness>/target/<profile>/rsv
    Some(exe.parent()?.parent()?.parent()?.to_path_buf())
}

fn build_tsan() -> Result<std::path::PathBuf, String> {
    let h = harness_dir().ok_or("cannot locate the harness directory")?;
    let out = Command::new("cargo")
        .args(["+nightly", "build", "-Zbuild-std", "--target", "x86_64-unknown-linux-gnu", "--release", "-p", "rsv", "--offline", "--target-dir"])
        .arg(h.join("target/tsan"))
        .env("RUSTFLAGS", "-Zsanitizer=thread")
        .env("CARGO_NET_OFFLINE", "true")
        .current_dir(&h)
        .output()
        .map_err(|e| e.to_string())?;
    let bin = h.join("target/tsan/x86_64-unknown-linux-gnu/release/rsv");
    if out.status.success() && bin.exists() {
        Ok(bin)
    } else {
        let err = String::from_utf8_lossy(&out.stderr);
        Err(err.chars().rev().take(300).collect::<String>().chars().rev().collect())
    }
}

fn check_tsan(p: &Program, st: &mut Stats) -> CheckResult {
    let Some(Some(bin)) = TSAN_BIN.get() else { return Ok(()) };
    let expected = run_sequential(p).map_err(|e| format!("reference execution of the rounds in the parent failed (each program is executed on one parent thread, but several programs run on different parent threads at once): {e}"))?;
    match run_child(p, bin, &[("TSAN_OPTIONS", "halt_on_error=1 exitcode=66 report_signal_unsafe=0")]) {
        ChildOutcome::Digests(got) => {
            ensure!(got == expected, "results under ThreadSanitizer differ from sequential execution");
        }
        ChildOutcome::Failed(m) => {
            if m.contains("ThreadSanitizer") {
                fail!("ThreadSanitizer reports a problem in concurrent use of independent objects: {m}");
            }
            fail!("concurrent execution (ThreadSanitizer build) failed: {m}");
        }
        ChildOutcome::Timeout => {
            st.count("inconclusive_watchdog", 1);
            return Ok(());
        }
        ChildOutcome::Spawn(e) => return Err(Fail { sig: None, msg: format!("harness: cannot run child process: {e}") }),
    }
    st.classf("threads", p.threads.len());
    st.nontrivial_case("programs_tsan", p);
    Ok(())
}

impl PartDyn for Tsan {
    fn name(&self) -> &'static str {
        "programs_tsan"
    }
    fn run(&self, run: &mut crate::runner::Run) {
        if run.tier != Tier::Thorough || run.failed() || std::env::var("RSV_NO_TSAN").is_ok() {
            return;
        }
        match TSAN_BIN.get_or_init(|| build_tsan().map_err(|e| eprintln!("[C16] ThreadSanitizer build unavailable: {e}")).ok()) {
            Some(_) => {}
            None => {
                run.extra.insert("thread_sanitizer".into(), "unavailable: build failed (the stress parts stand alone)".into());
                return;
            }
        }
        let cases = run.cases(0, 1_200);
        // generated programs and the systematic hammer programs
        run.explore(self.name(), cases, 20, &|| strategy(Tier::Thorough), |p, st| check_tsan(p, st));
        let mut st = Stats::default();
        let t0 = Instant::now();
        let mut fail = None;
        for &(kind, eng, dec) in &hammer_combos() {
            let prog = hammer_program(kind, eng, dec, run.seed, 40, run.seed % 2);
            st.evaluations += 1;
            if let Err(f) = check_tsan(&prog, &mut st) {
                fail = Some((prog, f.msg));
                break;
            }
        }
        run.record_part("hammer_tsan", st, false, "hammer programs under ThreadSanitizer", t0);
        if let Some((prog, m)) = fail {
            run.record_failure(self.name(), serde_json::to_value(&prog).unwrap(), m);
        }
        run.extra.insert("thread_sanitizer".into(), "ran".into());
    }
    fn replay(&self, case: &serde_json::Value) -> Result<(), String> {
        let p: Program = serde_json::from_value(case.clone()).map_err(|e| e.to_string())?;
        TSAN_BIN.get_or_init(|| build_tsan().ok());
        let mut st = Stats::default();
        for _ in 0..3 {
            match crate::runner::no_panic(|| check_tsan(&p, &mut st)) {
                Ok(Ok(())) => {}
                Ok(Err(f)) => return Err(f.msg),
                Err(p) => return Err(p),
            }
        }
        Ok(())
    }
}

// ----------------------------------------------------------------------
// hammer programs: every (engine, family, encoder|decoder) combination systematically; 6 threads in
// two groups doing two different kinds of work of that combination, many repetitions each. This is
// what exposes state shared between objects (caches, scratch buffers keyed by the work).

struct Hammer;

fn hammer_combos() -> Vec<(Kind, Eng, bool)> {
    let mut v = Vec::new();
    for dec in [true, false] {
        v.push((Kind::Rs, Eng::Default, dec));
        for kind in [Kind::Default, Kind::High, Kind::Low] {
            for eng in engines() {
                v.push((kind, eng, dec));
            }
        }
    }
    v
}

fn hammer_program(kind: Kind, eng: Eng, dec: bool, seed: u64, reps: u8, variant: u64) -> Program {
    let mut rng = gen::Xs::new(seed ^ crate::runner::hash_of(&(kind, eng, dec, variant)));
    // two kinds of work inside the family's natural region: low rate wants k <= r, high rate k >= r
    let spec = |rng: &mut gen::Xs| {
        let a = 2 + rng.below(6);
        let b = a + rng.below(6);
        let (k, r) = match kind {
            Kind::Low => (a, b),
            Kind::High => (b, a),
            _ => {
                if rng.below(2) == 0 {
                    (a, b)
                } else {
                    (b, a)
                }
            }
        };
        (Cfg { k, r, b: [2usize, 64, 66][rng.below(3)] }, rng.next())
    };
    let (c1, s1) = spec(&mut rng);
    let (c2, s2) = if variant % 2 == 0 { (c1, rng.next()) } else { spec(&mut rng) };
    let mut threads = Vec::new();
    for t in 0..6u32 {
        let (cfg, sd) = if t % 2 == 0 { (c1, s1) } else { (c2, s2) };
        threads.push(ThreadProg {
            spin: (rng.below(200)) as u32,
            actions: vec![Action::Round { id: t, dec, kind, eng, cfg, seed: sd, repeat: reps, handover: None }],
        });
    }
    Program { threads }
}

fn hammer_program_large(kind: Kind, eng: Eng, dec: bool, seed: u64, reps: u8) -> Program {
    let mut rng = gen::Xs::new(seed ^ crate::runner::hash_of(&(kind, eng, dec, "large")));
    let mut spec = |rng: &mut gen::Xs| {
        let a = 2500 + rng.below(1500);
        let b = 4200 + rng.below(3000);
        let (k, r) = match kind {
            Kind::Low => (a, b),
            Kind::High => (b, a),
            _ => {
                if rng.below(2) == 0 {
                    (a, b)
                } else {
                    (b, a)
                }
            }
        };
        (Cfg { k, r, b: 2 }, rng.next())
    };
    let (c1, s1) = spec(&mut rng);
    let (c2, s2) = (c1, rng.next()); // same shape, different loss pattern
    let (c3, s3) = spec(&mut rng);
    let mut threads = Vec::new();
    for t in 0..6u32 {
        let (cfg, sd) = match t % 3 {
            0 => (c1, s1),
            1 => (c2, s2),
            _ => (c3, s3),
        };
        threads.push(ThreadProg { spin: rng.below(200) as u32, actions: vec![Action::Round { id: t, dec, kind, eng, cfg, seed: sd, repeat: reps, handover: None }] });
    }
    Program { threads }
}

impl PartDyn for Hammer {
    fn name(&self) -> &'static str {
        "hammer"
    }
    fn run(&self, run: &mut crate::runner::Run) {
        if run.failed() {
            return;
        }
        let t0 = Instant::now();
        let combos = hammer_combos();
        let variants: u64 = run.tier.pick(1, 6);
        let reps: u8 = run.tier.pick(60, 250);
        let mut jobs = Vec::new();
        for v in 0..variants {
            for &(kind, eng, dec) in &combos {
                jobs.push(hammer_program(kind, eng, dec, run.seed, reps, v + run.seed % 2));
            }
            // the same with thousands of shards (more than 8192 working positions) on the default engine:
            // anything that only large configurations share is invisible to the small programs above
            for (kind, dec) in [(Kind::Rs, true), (Kind::High, true), (Kind::Low, true), (Kind::Rs, false)] {
                jobs.push(hammer_program_large(kind, Eng::Default, dec, run.seed ^ v, run.tier.pick(160, 250)));
            }
            // many more threads than anything sized "per core" or "per 16": 48 threads, three kinds of work
            for (kind, dec) in [(Kind::Rs, true), (Kind::Low, true)] {
                let mut rng = gen::Xs::new(run.seed ^ v ^ 0x48);
                let specs: Vec<(Cfg, u64)> = (0..3).map(|_| (Cfg { k: 2 + rng.below(5), r: 3 + rng.below(6), b: 64 }, rng.next())).collect();
                let specs: Vec<(Cfg, u64)> = specs.into_iter().map(|(c, s)| (if kind == Kind::Low && c.k > c.r { Cfg { k: c.r, r: c.k, b: c.b } } else { c }, s)).collect();
                let threads = (0..48u32)
                    .map(|t| {
                        let (cfg, seed) = specs[t as usize % 3];
                        ThreadProg { spin: 0, actions: vec![Action::Round { id: t, dec, kind, eng: Eng::Default, cfg, seed, repeat: run.tier.pick(60, 200), handover: None }] }
                    })
                    .collect();
                jobs.push(Program { threads });
            }
            // hundreds of threads in one process (anything indexed by "thread number modulo a pool size"): 160 and 300
            // threads, three kinds of decode work, a few repetitions each
            for (kind, nthreads) in [(Kind::Rs, 160u32), (Kind::High, 300u32)] {
                let mut rng = gen::Xs::new(run.seed ^ v ^ 0x160);
                let specs: Vec<(Cfg, u64)> = (0..3).map(|_| (Cfg { k: 5 + rng.below(6), r: 2 + rng.below(4), b: 64 }, rng.next())).collect();
                let threads = (0..nthreads)
                    .map(|t| {
                        let (cfg, seed) = specs[t as usize % 3];
                        ThreadProg { spin: 0, actions: vec![Action::Round { id: t, dec: true, kind, eng: Eng::Default, cfg, seed, repeat: run.tier.pick(40, 120), handover: None }] }
                    })
                    .collect();
                jobs.push(Program { threads });
            }
            // rounds completed while their thread exits (holder registered before / after the thread's other codec use)
            for (kind, dec) in [(Kind::Rs, true), (Kind::High, true), (Kind::Low, true), (Kind::Default, false)] {
                let mut rng = gen::Xs::new(run.seed ^ v ^ 0xe817);
                let threads = (0..6u32)
                    .map(|t| {
                        let (a, b) = (2 + rng.below(5), 7 + rng.below(6));
                        let cfg = if kind == Kind::High { Cfg { k: b, r: a, b: 64 } } else { Cfg { k: a, r: b, b: 64 } };
                        let seed = rng.next();
                        let mut actions = vec![Action::RoundAtExit { id: 2 * t, dec, kind, eng: Eng::Default, cfg, seed, early: t % 2 == 0 }];
                        if t % 3 != 2 {
                            actions.insert((t % 2) as usize, Action::Round { id: 2 * t + 1, dec, kind, eng: Eng::Default, cfg, seed: seed ^ 1, repeat: 3, handover: None });
                        }
                        ThreadProg { spin: 0, actions }
                    })
                    .collect();
                jobs.push(Program { threads });
            }
            // one-shot calls that can only finish side by side (a process-wide lock held while the
            // caller's iterator runs would deadlock them: reported by the watchdog as inconclusive)
            for (dec, mode) in [(false, 0u8), (false, 1), (true, 0), (true, 1)] {
                let mut rng = gen::Xs::new(run.seed ^ v ^ (dec as u64) << 8 ^ mode as u64);
                let threads = (0..4u32)
                    .map(|t| ThreadProg {
                        spin: 0,
                        // mode 0: everybody waits at a later item; mode 1: mixed first / second / last item
                        actions: vec![Action::OneShotRendezvous { id: t, dec, cfg: Cfg { k: 3 + rng.below(6), r: 3 + rng.below(6), b: 64 }, seed: rng.next(), wait_at: if mode == 0 { 1 + (t % 2) as u8 } else { [0u8, 1, 200, 2][t as usize] } }],
                    })
                    .collect();
                jobs.push(Program { threads });
            }
        }
        let next = std::sync::atomic::AtomicUsize::new(0);
        let results = std::sync::Mutex::new(Vec::new());
        let workers = (run.threads / 5).max(1);
        std::thread::scope(|sc| {
            for _ in 0..workers {
                sc.spawn(|| loop {
                    let i = next.fetch_add(1, std::sync::atomic::Ordering::Relaxed);
                    if i >= jobs.len() {
                        break;
                    }
                    let mut st = Stats::default();
                    let r = crate::runner::no_panic(|| check(&jobs[i], &mut st));
                    let r = match r {
                        Ok(Ok(())) => Ok(()),
                        Ok(Err(f)) => Err(f.msg),
                        Err(p) => Err(p),
                    };
                    results.lock().unwrap().push((i, r, st));
                });
            }
        });
        let mut stats = Stats::default();
        let mut failure = None;
        let mut res = results.into_inner().unwrap();
        res.sort_by_key(|x| x.0);
        for (i, r, st) in res {
            stats.evaluations += 1;
            stats.nontrivial_key(crate::runner::hash_of(&jobs[i]));
            for (k, v) in st.counters {
                *stats.counters.entry(k).or_insert(0) += v;
            }
            if let Err(m) = r {
                if failure.is_none() {
                    failure = Some((i, m));
                }
            }
        }
        stats.classes.insert("combinations".into(), combos.len() as u64);
        stats.classes.insert("repetitions_per_thread".into(), reps as u64);
        stats.samples.push(serde_json::to_value(&jobs[0]).unwrap());
        let wd = stats.counters.get("inconclusive_watchdog").copied().unwrap_or(0);
        if wd > 0 {
            run.inconclusive.push(format!("hammer: {wd} child process(es) hit the watchdog"));
        }
        run.record_part(self.name(), stats, false, "every engine x family x {encoder, decoder}: 6 threads, two kinds of work, many repetitions", t0);
        if let Some((i, m)) = failure {
            if crate::runner::is_harness_panic(&m) {
                run.inconclusive.push(format!("hammer: {m}"));
            } else {
                run.record_failure(self.name(), serde_json::to_value(&jobs[i]).unwrap(), m);
            }
        }
    }
    fn replay(&self, case: &serde_json::Value) -> Result<(), String> {
        let p: Program = serde_json::from_value(case.clone()).map_err(|e| e.to_string())?;
        let mut st = Stats::default();
        // a race needs luck: give the saved program several chances
        for _ in 0..5 {
            match crate::runner::no_panic(|| check(&p, &mut st)) {
                Ok(Ok(())) => {}
                Ok(Err(f)) => return Err(f.msg),
                Err(p) => return Err(p),
            }
        }
        Ok(())
    }
}

// ----------------------------------------------------------------------
// executing rounds

struct Pending {
    id: u32,
    obj: Obj,
    calls: Vec<Call>,
    /// all calls of the round (the repetitions replay the whole round even after a hand-over)
    all_calls: std::sync::Arc<Vec<Call>>,
    /// further repetitions of the same round on fresh objects: (count, dec, kind, eng, cfg, seed)
    again: Option<(u8, bool, Kind, Eng, Cfg, u64)>,
}

fn round_calls(dec: bool, c: Cfg, seed: u64) -> Vec<Call> {
    let mut v = Vec::new();
    if dec {
        // seeded loss pattern: L originals withheld, replaced by L recovery shards
        let mut rng = gen::Xs::new(seed ^ 0xC16);
        let maxl = c.k.min(c.r);
        let l = 1 + rng.below(maxl);
        let mut oi: Vec<usize> = (0..c.k).collect();
        rng.shuffle(&mut oi);
        let mut ri: Vec<usize> = (0..c.r).collect();
        rng.shuffle(&mut ri);
        for &i in &oi[l..] {
            v.push(Call::AddO(i, shard_bytes(seed, false, i, c.b)));
        }
        for &i in &ri[..l] {
            v.push(Call::AddR(i, shard_bytes(seed, true, i, c.b)));
        }
    } else {
        for i in 0..c.k {
            v.push(Call::AddO(i, shard_bytes(seed, false, i, c.b)));
        }
    }
    v.push(Call::Finish { read: true });
    v
}

fn finish(mut p: Pending) -> Result<(u32, u64), String> {
    let mut last = String::new();
    for call in &p.calls {
        let out = p.obj.apply(call)?;
        if !out.is_ok() {
            return Err(format!("round {}: call failed: {}", p.id, out.brief()));
        }
        last = out.brief();
    }
    if let Some((n, ..)) = p.again {
        // further repetitions of the same round on the same object (implicit reset by the dropped result)
        for rep in 1..n {
            let mut l = String::new();
            for call in p.all_calls.iter() {
                let out = p.obj.apply(call)?;
                if !out.is_ok() {
                    return Err(format!("round {} repetition {rep}: call failed: {}", p.id, out.brief()));
                }
                l = out.brief();
            }
            if l != last {
                return Err(format!("round {} repetition {rep}: the same round gives a different result than its first execution: {l} vs {last}", p.id));
            }
        }
    }
    Ok((p.id, crate::runner::hash_of(&last)))
}

fn oneshot(dec: bool, cfg: Cfg, seed: u64, wait_at: u8, barrier: Option<&std::sync::Barrier>) -> Result<u64, String> {
    let data: Vec<Vec<u8>> = (0..cfg.k).map(|i| shard_bytes(seed, false, i, cfg.b)).collect();
    // waits when the iterator hands out item number `wait_at` (clamped to the last item)
    let wait = |seen: &mut usize, total: usize| {
        if *seen == (wait_at as usize).min(total.saturating_sub(1)) {
            if let Some(b) = barrier {
                b.wait();
            }
        }
        *seen += 1;
    };
    if !dec {
        let mut seen = 0usize;
        let rec = reed_solomon_simd::encode(cfg.k, cfg.r, data.iter().inspect(|_| wait(&mut seen, cfg.k))).map_err(|e| format!("one-shot encode failed: {e:?}"))?;
        Ok(crate::runner::hash_of(&rec))
    } else {
        let rec = encode_all(Kind::Rs, Eng::Default, cfg.k, cfg.r, cfg.b, &data).map_err(|e| format!("encode failed: {e:?}"))?;
        let n = cfg.k.min(cfg.r);
        let mut seen = 0usize;
        let restored = reed_solomon_simd::decode(
            cfg.k,
            cfg.r,
            (n..cfg.k).map(|i| (i, &data[i])),
            (0..n).map(|i| (i, &rec[i])).inspect(|_| wait(&mut seen, n)),
        )
        .map_err(|e| format!("one-shot decode failed: {e:?}"))?;
        let m: BTreeMap<usize, Vec<u8>> = restored.into_iter().collect();
        Ok(crate::runner::hash_of(&m))
    }
}

fn start(action: &Action) -> Result<Option<(Pending, Option<(u8, u16)>)>, String> {
    match action {
        Action::OneShotRendezvous { .. } => Ok(None),
        Action::RoundAtExit { id, dec, kind, eng, cfg, seed, .. } => {
            // (sequential reference only; the concurrent execution parks these in a thread-local)
            let obj = Obj::make(*dec, *kind, *eng, *cfg).map_err(|e| format!("round {id}: construction failed: {e:?}"))?;
            let calls = round_calls(*dec, *cfg, *seed);
            Ok(Some((Pending { id: *id, obj, calls, all_calls: std::sync::Arc::new(Vec::new()), again: None }, None)))
        }
        Action::Construct(e) => {
            crate::with_engine!(*e, E, {
                let _ = <E as Mk>::mk();
            });
            Ok(None)
        }
        Action::Round { id, dec, kind, eng, cfg, seed, repeat, handover } => {
            let obj = Obj::make(*dec, *kind, *eng, *cfg).map_err(|e| format!("round {id}: construction failed: {e:?}"))?;
            let again = if *repeat > 1 { Some((*repeat, *dec, *kind, *eng, *cfg, *seed)) } else { None };
            let calls = round_calls(*dec, *cfg, *seed);
            let all_calls = std::sync::Arc::new(if again.is_some() { calls.clone() } else { Vec::new() });
            Ok(Some((Pending { id: *id, obj, calls, all_calls, again }, *handover)))
        }
    }
}

/// sequential reference: every round on the calling thread
pub fn run_sequential(p: &Program) -> Result<BTreeMap<u32, u64>, String> {
    let mut out = BTreeMap::new();
    for t in &p.threads {
        for a in &t.actions {
            if let Action::OneShotRendezvous { id, dec, cfg, seed, wait_at } = a {
                out.insert(*id, oneshot(*dec, *cfg, *seed, *wait_at, None)?);
                continue;
            }
            if let Some((pending, _)) = start(a)? {
                let (id, d) = finish(pending)?;
                out.insert(id, d);
            }
        }
    }
    Ok(out)
}

/// the child: really concurrent
pub fn run_concurrent(p: &Program) -> Result<BTreeMap<u32, u64>, String> {
    let n = p.threads.len();
    let barrier = std::sync::Barrier::new(n);
    let rv_threads = p.threads.iter().filter(|t| t.actions.iter().any(|a| matches!(a, Action::OneShotRendezvous { .. }))).count();
    let rv_barrier = std::sync::Barrier::new(rv_threads.max(1));
    let mut txs = Vec::new();
    let mut rxs = Vec::new();
    for _ in 0..n {
        let (tx, rx) = mpsc::channel::<Pending>();
        txs.push(tx);
        rxs.push(Some(rx));
    }
    let (exit_tx, exit_rx) = mpsc::channel::<Result<(u32, u64), String>>();
    let results: Vec<Result<Vec<(u32, u64)>, String>> = std::thread::scope(|sc| {
        let mut hs = Vec::new();
        for (ti, t) in p.threads.iter().enumerate() {
            let rx = rxs[ti].take().unwrap();
            let txs: Vec<mpsc::Sender<Pending>> = txs.clone();
            let barrier = &barrier;
            let rv_barrier = &rv_barrier;
            let exit_tx = exit_tx.clone();
            hs.push(sc.spawn(move || -> Result<Vec<(u32, u64)>, String> {
                let mut done = Vec::new();
                barrier.wait();
                for a in t.actions.iter().filter(|a| matches!(a, Action::RoundAtExit { early: true, .. })) {
                    park_at_exit(a, &exit_tx)?;
                }
                let mut x = 0u64;
                for i in 0..t.spin {
                    x = x.wrapping_add(std::hint::black_box(i as u64));
                    std::hint::spin_loop();
                }
                std::hint::black_box(x);
                let mut met = false;
                for a in &t.actions {
                    if let Action::OneShotRendezvous { id, dec, cfg, seed, wait_at } = a {
                        // only the first such action of a thread takes part in the rendezvous
                        done.push((*id, oneshot(*dec, *cfg, *seed, *wait_at, if met { None } else { Some(rv_barrier) })?));
                        met = true;
                        continue;
                    }
                    if matches!(a, Action::RoundAtExit { .. }) {
                        continue;
                    }
                    if let Some((mut pending, handover)) = start(a)? {
                        match handover {
                            Some((to, after)) if n > 1 => {
                                let target = (ti + 1 + to as usize % (n - 1)) % n;
                                let adds = pending.calls.len() - 1;
                                let j = gen::idx_map(after, adds);
                                let rest = pending.calls.split_off(j);
                                for call in &pending.calls {
                                    let out = pending.obj.apply(call)?;
                                    if !out.is_ok() {
                                        return Err(format!("round {}: add failed before hand-over: {}", pending.id, out.brief()));
                                    }
                                }
                                pending.calls = rest;
                                txs[target].send(pending).map_err(|_| "hand-over channel closed".to_string())?;
                            }
                            _ => done.push(finish(pending)?),
                        }
                    }
                }
                drop(txs);
                // objects handed over to this thread in the middle of their round
                for pending in rx {
                    done.push(finish(pending)?);
                }
                for a in t.actions.iter().filter(|a| matches!(a, Action::RoundAtExit { early: false, .. })) {
                    park_at_exit(a, &exit_tx)?;
                }
                Ok(done)
            }));
        }
        drop(txs);
        hs.into_iter().map(|h| h.join().unwrap_or_else(|_| Err("thread panicked".to_string()))).collect()
    });
    let mut out = BTreeMap::new();
    for r in results {
        for (id, d) in r? {
            out.insert(id, d);
        }
    }
    // rounds completed by thread-local destructors (the scope may return before these have run:
    // the channel closes when the last of them is done)
    drop(exit_tx);
    for r in exit_rx {
        let (id, d) = r.map_err(|e| format!("in a round completed while its thread exits: {e}"))?;
        out.insert(id, d);
    }
    Ok(out)
}

/// entry point of `rsv c16-child`: program on stdin, digests on stdout
pub fn child_main() -> i32 {
    let mut text = String::new();
    if std::io::stdin().read_to_string(&mut text).is_err() {
        return 3;
    }
    let Ok(p) = serde_json::from_str::<Program>(&text) else { return 3 };
    match run_concurrent(&p) {
        Ok(m) => {
            println!("{}", serde_json::to_string(&m).unwrap());
            0
        }
        Err(e) => {
            println!("ERROR {e}");
            1
        }
    }
}

pub const WATCHDOG: Duration = Duration::from_secs(60);

fn watchdog_for(p: &Program) -> Duration {
    // rendezvous programs do a few milliseconds of work
    if p.threads.iter().flat_map(|t| &t.actions).all(|a| matches!(a, Action::OneShotRendezvous { .. })) {
        Duration::from_secs(25)
    } else {
        WATCHDOG
    }
}

pub enum ChildOutcome {
    Digests(BTreeMap<u32, u64>),
    Failed(String),
    Timeout,
    Spawn(String),
}

pub fn run_child(p: &Program, exe: &std::path::Path, extra_env: &[(&str, &str)]) -> ChildOutcome {
    let mut cmd = Command::new(exe);
    cmd.arg("c16-child").stdin(Stdio::piped()).stdout(Stdio::piped()).stderr(Stdio::piped());
    for (k, v) in extra_env {
        cmd.env(k, v);
    }
    let mut child = match cmd.spawn() {
        Ok(c) => c,
        Err(e) => return ChildOutcome::Spawn(e.to_string()),
    };
    let text = serde_json::to_string(p).unwrap();
    if let Some(mut si) = child.stdin.take() {
        let _ = si.write_all(text.as_bytes());
    }
    let t0 = Instant::now();
    loop {
        match child.try_wait() {
            Ok(Some(status)) => {
                let mut out = String::new();
                let mut err = String::new();
                if let Some(mut so) = child.stdout.take() {
                    let _ = so.read_to_string(&mut out);
                }
                if let Some(mut se) = child.stderr.take() {
                    let _ = se.read_to_string(&mut err);
                }
                if status.success() {
                    return match serde_json::from_str::<BTreeMap<u32, u64>>(out.trim()) {
                        Ok(m) => ChildOutcome::Digests(m),
                        Err(_) => ChildOutcome::Failed(format!("unparsable child output: {}", &out[..out.len().min(300)])),
                    };
                }
                let tail: String = err.chars().rev().take(600).collect::<String>().chars().rev().collect();
                return ChildOutcome::Failed(format!("child exit status {status}; stdout: {}; stderr tail: {tail}", out.trim()));
            }
            Ok(None) => {
                if t0.elapsed() > watchdog_for(p) {
                    let _ = child.kill();
                    let _ = child.wait();
                    return ChildOutcome::Timeout;
                }
                std::thread::sleep(Duration::from_millis(2));
            }
            Err(e) => return ChildOutcome::Spawn(e.to_string()),
        }
    }
}

fn first_tables(a: &Action) -> u8 {
    // bit set of tables first-touched: 1 exp/log, 2 skew, 4 mul16, 8 mul128, 16 log_walsh
    let eng_bits = |e: Eng| match e {
        Eng::Naive => 1 | 2,
        Eng::NoSimd => 1 | 2 | 4,
        Eng::Ssse3 | Eng::Avx2 | Eng::Neon | Eng::Default => 1 | 2 | 8,
    };
    match a {
        Action::Construct(e) => eng_bits(*e),
        Action::Round { dec, eng, .. } | Action::RoundAtExit { dec, eng, .. } => eng_bits(*eng) | if *dec { 16 } else { 0 },
        Action::OneShotRendezvous { dec, .. } => eng_bits(Eng::Default) | if *dec { 16 } else { 0 },
    }
}

fn check(p: &Program, st: &mut Stats) -> CheckResult {
    let expected = run_sequential(p).map_err(|e| format!("reference execution of the rounds in the parent failed (each program is executed on one parent thread, but several programs run on different parent threads at once): {e}"))?;
    let exe = std::env::current_exe().map_err(|e| format!("harness: current_exe: {e}"))?;
    match run_child(p, &exe, &[]) {
        ChildOutcome::Digests(got) => {
            ensure!(got.len() == expected.len(), "concurrent run completed {} rounds, sequential run {}", got.len(), expected.len());
            for (id, d) in &expected {
                match got.get(id) {
                    Some(g) if g == d => {}
                    Some(_) => fail!("round {id}: result of concurrent execution differs from sequential execution of the same round"),
                    None => fail!("round {id}: missing in the concurrent run"),
                }
            }
        }
        ChildOutcome::Failed(m) => fail!("concurrent execution failed (sequential execution of the same rounds succeeds): {m}"),
        ChildOutcome::Timeout => {
            // suspected deadlock: reported as inconclusive after the run, never shrunk, never a violation
            st.count("inconclusive_watchdog", 1);
            let dir = format!("{}/replays", crate::runner::verif_dir());
            let _ = std::fs::create_dir_all(&dir);
            let _ = std::fs::write(format!("{dir}/C16-watchdog-{:016x}.json", crate::runner::hash_of(p)), serde_json::to_string_pretty(p).unwrap());
            return Ok(());
        }
        ChildOutcome::Spawn(e) => return Err(Fail { sig: None, msg: format!("harness: cannot run child process: {e}") }),
    }
    let firsts: std::collections::BTreeSet<u8> = p.threads.iter().filter_map(|t| t.actions.first()).map(first_tables).collect();
    let handovers = p.threads.iter().flat_map(|t| &t.actions).filter(|a| matches!(a, Action::Round { handover: Some(_), .. })).count();
    st.classf("threads", p.threads.len());
    st.classf("distinct_first_touch_sets", firsts.len());
    st.classf("handovers", handovers.min(4));
    st.classf("rounds_completed_during_thread_exit", p.threads.iter().flat_map(|t| &t.actions).filter(|a| matches!(a, Action::RoundAtExit { .. })).count().min(4));
    if firsts.len() >= 2 || handovers > 0 {
        st.nontrivial_case("programs", p);
    }
    Ok(())
}
