//! C17 - working space is reused in place; rounds and non-growing resets never allocate.

use crate::alloc::{measure, Seen};
use crate::engines::*;
use crate::gen::{self, Cfg};
use crate::history::{shard_bytes, Obj, RawCfg};
use crate::props::PropDef;
use crate::runner::{CheckResult, GenPart, PartDyn, Stats, Tier};
use crate::{ensure, fail};
use proptest::prelude::*;
use serde::{Deserialize, Serialize};

pub fn def() -> PropDef {
    PropDef {
        id: "C17",
        rule: "generated histories on one encoder or decoder of every family x engine: a first configuration, then 1..6 steps, each a reset (or into_parts -> new(Some(work)) into another family/engine) to a generated target followed by complete rounds (adds, encode/decode, results read through the borrowing accessors, result dropped). A counting global allocator records every allocation and growing reallocation made by the thread inside the measured region 'reset/new-with-work + adds + encode/decode + read + drop'. need(cfg) is *measured* on a freshly built object of the same family (the sizes of everything its constructor allocates, engine excluded). Every history is executed at three scales: as generated, with every shard size x3, and with every count x2. oracle (metamorphic): in every region whose target fits (need(target) <= the element-wise maximum need over the object's past, at both scales) and in every second or later round of a configuration, the number of bytes allocated must be the same at both scales, i.e. nothing that is allocated there may grow with the shard size or with the counts (a fixed-size scratch buffer is not shard-proportional and is tolerated; it is reported in the class histogram). Every measured buffer is >= 16 KiB. non-trivial: target differs from the previous configuration and fits; distinct by full case",
        assumptions: &[
            "an object holds at least the maximum it ever needed (Vec never shrinks); capacity may be larger, which only makes the check claim 'fits' less often than true",
            "all lookup tables and engines are initialised before measuring",
        ],
        parts,
    }
}

#[derive(Clone, Debug, PartialEq, Eq, Hash, Serialize, Deserialize)]
pub struct Step {
    pub cfg: RawCfg,
    /// Some => recycle into this family/engine instead of reset
    pub recycle: Option<(Kind, Eng)>,
    pub rounds: u8,
}

#[derive(Clone, Debug, PartialEq, Eq, Hash, Serialize, Deserialize)]
pub struct AllocCase {
    pub dec: bool,
    pub kind: Kind,
    pub eng: Eng,
    pub init: RawCfg,
    pub steps: Vec<Step>,
    pub seed: u64,
}

/// configurations whose shard buffer is comfortably above the threshold
fn big_cfg() -> BoxedStrategy<RawCfg> {
    prop_oneof![
        // few shards, large shards
        3 => (4usize..=12, 4usize..=12, any::<bool>(), (2048usize..=3072).prop_map(|h| h * 2)).prop_map(|(bounded, other, flip, size)| RawCfg { bounded, other, flip, size }),
        // many positions, one or two blocks
        2 => (1usize..=600, 300usize..=900, any::<bool>(), prop_oneof![Just(2usize), Just(64), Just(66), Just(130)]).prop_map(|(bounded, other, flip, size)| RawCfg { bounded, other, flip, size }),
        // bitmap also above the threshold (>= 8192 positions -> >= 1 KiB of bits)
        1 => (1usize..=64, 9000usize..=20000, any::<bool>(), Just(2usize)).prop_map(|(bounded, other, flip, size)| RawCfg { bounded, other, flip, size }),
    ]
    .boxed()
}

fn strategy(_t: Tier) -> BoxedStrategy<AllocCase> {
    (any::<bool>(), gen::kind_any())
        .prop_flat_map(|(dec, kind)| {
            let step = (big_cfg(), prop::option::weighted(0.3, (gen::kind_rate(), gen::engine())), 1u8..=3).prop_map(|(cfg, recycle, rounds)| Step { cfg, recycle, rounds });
            (gen::engine_for(kind), big_cfg(), prop::collection::vec(step, 1..=6), any::<u64>()).prop_map(move |(eng, init, steps, seed)| AllocCase { dec, kind, eng, init, steps, seed })
        })
        .boxed()
}

fn parts() -> Vec<Box<dyn PartDyn>> {
    vec![Box::new(GenPart { name: "alloc", quick: 1_500, thorough: 100_000, shrink_iters: 400, strat: strategy, check })]
}

fn warm_tables() {
    use std::sync::Once;
    static ONCE: Once = Once::new();
    ONCE.call_once(|| {
        for e in engines() {
            let d = vec![vec![1u8; 64]; 2];
            let rec = encode_all(Kind::High, e, 2, 2, 64, &d).unwrap();
            let g = [Given { rec: true, idx: 0 }, Given { rec: true, idx: 1 }];
            let _ = decode_all(Kind::High, e, 2, 2, 64, &g, &d, &rec).unwrap();
        }
    });
}

/// prepared inputs of one round (built outside the measured region)
struct Inputs {
    originals: Vec<Vec<u8>>,
    recovery: Vec<(usize, Vec<u8>)>,
    originals_given: Vec<usize>,
}

fn inputs(dec: bool, c: Cfg, seed: u64) -> Inputs {
    if dec {
        // maximum loss of originals: give min(k, r) recovery shards and the remaining originals
        let nrec = c.k.min(c.r);
        Inputs {
            originals: (0..c.k).map(|i| shard_bytes(seed, false, i, c.b)).collect(),
            recovery: (0..nrec).map(|i| (i, shard_bytes(seed, true, i, c.b))).collect(),
            originals_given: (nrec..c.k).collect(),
        }
    } else {
        Inputs { originals: (0..c.k).map(|i| shard_bytes(seed, false, i, c.b)).collect(), recovery: Vec::new(), originals_given: Vec::new() }
    }
}

/// adds + encode/decode + read (no copying) + drop; returns a digest so the reads cannot be optimised away
fn run_round(obj: &mut Obj, inp: &Inputs) -> Result<u64, String> {
    let mut digest = 0u64;
    match obj {
        Obj::Enc(e) => {
            for s in &inp.originals {
                e.add(s).map_err(|e| format!("add failed: {e:?}"))?;
            }
            e.encode_with(&mut |res| {
                for s in res.recovery_iter() {
                    digest = digest.wrapping_mul(31).wrapping_add(s[0] as u64 + s[s.len() - 1] as u64);
                }
            })
            .map_err(|e| format!("encode failed: {e:?}"))?;
        }
        Obj::Dec(d) => {
            for &i in &inp.originals_given {
                d.add_original(i, &inp.originals[i]).map_err(|e| format!("add failed: {e:?}"))?;
            }
            for (i, s) in &inp.recovery {
                d.add_recovery(*i, s).map_err(|e| format!("add failed: {e:?}"))?;
            }
            d.decode_with(&mut |res| {
                for (i, s) in res.restored_original_iter() {
                    digest = digest.wrapping_mul(31).wrapping_add(i as u64 + s[0] as u64);
                }
            })
            .map_err(|e| format!("decode failed: {e:?}"))?;
        }
    }
    Ok(digest)
}

/// Working-space need of a configuration, *measured*: the sizes (descending) of everything a fresh
/// codec of this family allocates in `new` (the engine is built outside the measurement).
fn need(dec: bool, kind: Kind, eng: Eng, c: Cfg) -> Result<Vec<usize>, String> {
    use reed_solomon_simd::rate::*;
    // ReedSolomonEncoder/Decoder == DefaultRate<DefaultEngine> (C09); its constructor builds the engine itself
    let (kind, eng) = if kind == Kind::Rs { (Kind::Default, Eng::Default) } else { (kind, eng) };
    let seen: Seen = crate::with_engine!(eng, E, {
        let e = <E as Mk>::mk();
        macro_rules! go {
            ($T:ty) => {{
                let (r, seen) = measure(|| <$T>::new(c.k, c.r, c.b, e, None).map(|_| ()));
                r.map_err(|e| format!("fresh construction of {c:?} failed: {e:?}"))?;
                seen
            }};
        }
        match (dec, kind) {
            (false, Kind::High) => go!(HighRateEncoder<E>),
            (false, Kind::Low) => go!(LowRateEncoder<E>),
            (false, _) => go!(DefaultRateEncoder<E>),
            (true, Kind::High) => go!(HighRateDecoder<E>),
            (true, Kind::Low) => go!(LowRateDecoder<E>),
            (true, _) => go!(DefaultRateDecoder<E>),
        }
    });
    if seen.count > 12 {
        return Err(format!("harness: construction made {} allocations; need vector would be truncated", seen.count));
    }
    let mut v: Vec<usize> = seen.sizes[..seen.count].to_vec();
    v.sort_unstable_by(|a, b| b.cmp(a));
    Ok(v)
}

/// need <= held, element by element (both descending)
fn fits_in(need: &[usize], held: &[usize]) -> bool {
    need.iter().enumerate().all(|(i, &n)| n <= held.get(i).copied().unwrap_or(0))
}

fn hold_more(held: &mut Vec<usize>, need: &[usize]) {
    for (i, &n) in need.iter().enumerate() {
        if i < held.len() {
            held[i] = held[i].max(n);
        } else {
            held.push(n);
        }
    }
}

#[derive(Clone, Debug)]
struct RegionObs {
    label: String,
    fits: bool,
    seen: Seen,
    changed: bool,
}

fn scaled(rc: &RawCfg, bs: usize, cs: usize) -> RawCfg {
    RawCfg { bounded: rc.bounded * cs, other: rc.other * cs, flip: rc.flip, size: rc.size * bs }
}

/// executes the history with shard sizes x bs and counts x cs; one observation per measured region
fn execute(c: &AllocCase, bs: usize, cs: usize) -> Result<Vec<RegionObs>, crate::runner::Fail> {
    let dec = c.dec;
    let mut kind = c.kind;
    let mut eng = c.eng;
    let mut cur = scaled(&c.init, bs, cs).orient(kind);
    let mut held = need(dec, kind, eng, cur)?;
    ensure!(held[0] >= 16 * 1024, "harness: generated configuration with a buffer below 16 KiB: {cur:?} needs {held:?}");
    let mut obj = Obj::make(dec, kind, eng, cur).map_err(|e| format!("construction failed: {e:?}"))?;
    let mut obs = Vec::new();
    // one warm-up round on the initial configuration
    run_round(&mut obj, &inputs(dec, cur, c.seed))?;

    for (si, step) in c.steps.iter().enumerate() {
        let (k2, e2) = match step.recycle {
            Some((k, e)) if kind != Kind::Rs => (k, e),
            _ => (kind, eng),
        };
        let target = scaled(&step.cfg, bs, cs).orient(k2);
        let n = need(dec, k2, e2, target)?;
        let fits = fits_in(&n, &held);
        let inp = inputs(dec, target, c.seed ^ si as u64);
        let recycle = (k2, e2) != (kind, eng);
        // ---- measured region: reset / new-with-work + first round
        let taken = std::mem::replace(&mut obj, Obj::Enc(Box::new(NullEnc)));
        let (res, seen): (Result<(Obj, u64), String>, Seen) = measure(|| {
            let mut o = if recycle {
                taken.recycle(k2, e2, target).map_err(|e| format!("new(Some(work)) failed: {e:?}"))?
            } else {
                let mut o = taken;
                let out = o.apply(&crate::history::Call::Reset(target.k, target.r, target.b))?;
                if !out.is_ok() {
                    return Err(format!("reset to supported {target:?} failed: {}", out.brief()));
                }
                o
            };
            let d = run_round(&mut o, &inp)?;
            Ok((o, d))
        });
        let (o, _digest) = res?;
        obj = o;
        obs.push(RegionObs {
            label: format!("step {si}: {} from {cur:?} to {target:?} ({} {}) + first round", if recycle { "new(Some(work))" } else { "reset" }, k2.name(), e2.name()),
            fits,
            seen,
            changed: target != cur,
        });
        hold_more(&mut held, &n);
        kind = k2;
        eng = e2;
        // ---- further rounds of the same configuration
        for rd in 1..step.rounds {
            let inp = inputs(dec, target, c.seed ^ si as u64 ^ (rd as u64) << 32);
            let (res, seen) = measure(|| run_round(&mut obj, &inp));
            res?;
            obs.push(RegionObs { label: format!("step {si}: round {rd} on the unchanged configuration {target:?} ({} {})", kind.name(), eng.name()), fits: true, seen, changed: false });
        }
        cur = target;
    }
    Ok(obs)
}

fn check(c: &AllocCase, st: &mut Stats) -> CheckResult {
    warm_tables();
    let base = execute(c, 1, 1)?;
    let mut fits_seen = 0;
    for (name, bs, cs) in [("shard size x3", 3usize, 1usize), ("counts x2", 1, 2)] {
        let other = execute(c, bs, cs)?;
        ensure!(other.len() == base.len(), "harness: region lists differ between scales");
        for (a, b) in base.iter().zip(&other) {
            if a.fits && b.fits && b.seen.bytes > a.seen.bytes {
                fail!(
                    "{}: the target needs no more working space than the object already holds, yet the bytes allocated in this region grow with the configuration: {} bytes as generated, {} bytes with {name} (largest single allocation {} -> {} bytes); memory proportional to the shards is being allocated instead of reused",
                    a.label, a.seen.bytes, b.seen.bytes, a.seen.max, b.seen.max
                );
            }
        }
    }
    for a in &base {
        st.classf("fits", a.fits);
        if a.fits {
            if a.changed {
                fits_seen += 1;
            }
            // not a violation: reported so that a reader sees fixed-size scratch allocations
            st.classf("fits_region_fixed_alloc_ge_1KiB", a.seen.big > 0);
        } else {
            st.classf("grow_allocated", a.seen.big > 0);
        }
    }
    st.classf("subject", if c.dec { "decoder" } else { "encoder" });
    st.classf("recycles", c.steps.iter().filter(|s| s.recycle.is_some()).count().min(3));
    if fits_seen > 0 {
        st.nontrivial_case("alloc", c);
    }
    Ok(())
}

/// placeholder while the real object is moved into the measured closure
struct NullEnc;

impl DynEnc for NullEnc {
    fn add(&mut self, _: &[u8]) -> Result<(), reed_solomon_simd::Error> {
        Ok(())
    }
    fn encode_with(&mut self, _: &mut dyn FnMut(&reed_solomon_simd::EncoderResult)) -> Result<(), reed_solomon_simd::Error> {
        Ok(())
    }
    fn reset(&mut self, _: usize, _: usize, _: usize) -> Result<(), reed_solomon_simd::Error> {
        Ok(())
    }
    fn into_work(self: Box<Self>) -> Option<reed_solomon_simd::rate::EncoderWork> {
        None
    }
}
