//! C17 - working space is reused in place; rounds and non-growing resets never allocate.

use crate::alloc::{measure, Seen, BIG};
use crate::engines::*;
use crate::gen::{self, Cfg};
use crate::history::{shard_bytes, Obj, RawCfg};
use crate::props::PropDef;
use crate::runner::{CheckResult, GenPart, PartDyn, Stats, Tier};
use crate::{ensure, fail};
use proptest::prelude::*;
use serde::{Deserialize, Serialize};

pub fn def() -> PropDef {
    PropDef {
        id: "C17",
        rule: "generated histories on one encoder or decoder of every family x engine: a first configuration, then 1..6 steps, each a reset (or into_parts -> new(Some(work)) into another family/engine) to a generated target followed by complete rounds (adds, encode/decode, results read through the borrowing accessors, result dropped). A counting global allocator records every allocation and growing reallocation made by the thread inside the measured region 'reset/new-with-work + adds + encode/decode + read + drop'. need(cfg) is *measured* on a freshly built object of the same family (sizes of its two largest allocations >= 1 KiB). oracle: if need(target) <= the maximum need over the object's past for both buffers, the region contains no allocation >= 1 KiB; second and later rounds of a configuration never allocate >= 1 KiB at all. Every measured buffer is >= 16 KiB so shard-proportional memory cannot hide below the threshold. non-trivial: target differs from the previous configuration and fits; distinct by full case",
        assumptions: &[
            "an object holds at least the maximum it ever needed (Vec never shrinks); capacity may be larger, which only makes the check claim 'fits' less often than true",
            "all lookup tables and engines are initialised before measuring",
        ],
        parts,
    }
}

#[derive(Clone, Debug, PartialEq, Eq, Hash, Serialize, Deserialize)]
pub struct Step {
    pub cfg: RawCfg,
    /// Some => recycle into this family/engine instead of reset
    pub recycle: Option<(Kind, Eng)>,
    pub rounds: u8,
}

#[derive(Clone, Debug, PartialEq, Eq, Hash, Serialize, Deserialize)]
pub struct AllocCase {
    pub dec: bool,
    pub kind: Kind,
    pub eng: Eng,
    pub init: RawCfg,
    pub steps: Vec<Step>,
    pub seed: u64,
}

/// configurations whose shard buffer is comfortably above the threshold
fn big_cfg() -> BoxedStrategy<RawCfg> {
    prop_oneof![
        // few shards, large shards
        3 => (4usize..=12, 4usize..=12, any::<bool>(), (2048usize..=3072).prop_map(|h| h * 2)).prop_map(|(bounded, other, flip, size)| RawCfg { bounded, other, flip, size }),
        // many positions, one or two blocks
        2 => (1usize..=600, 300usize..=900, any::<bool>(), prop_oneof![Just(2usize), Just(64), Just(66), Just(130)]).prop_map(|(bounded, other, flip, size)| RawCfg { bounded, other, flip, size }),
        // bitmap also above the threshold (>= 8192 positions -> >= 1 KiB of bits)
        1 => (1usize..=64, 9000usize..=20000, any::<bool>(), Just(2usize)).prop_map(|(bounded, other, flip, size)| RawCfg { bounded, other, flip, size }),
    ]
    .boxed()
}

fn strategy(_t: Tier) -> BoxedStrategy<AllocCase> {
    (any::<bool>(), gen::kind_any())
        .prop_flat_map(|(dec, kind)| {
            let step = (big_cfg(), prop::option::weighted(0.3, (gen::kind_rate(), gen::engine())), 1u8..=3).prop_map(|(cfg, recycle, rounds)| Step { cfg, recycle, rounds });
            (gen::engine_for(kind), big_cfg(), prop::collection::vec(step, 1..=6), any::<u64>()).prop_map(move |(eng, init, steps, seed)| AllocCase { dec, kind, eng, init, steps, seed })
        })
        .boxed()
}

fn parts() -> Vec<Box<dyn PartDyn>> {
    vec![Box::new(GenPart { name: "alloc", quick: 3_000, thorough: 100_000, shrink_iters: 400, strat: strategy, check })]
}

fn warm_tables() {
    use std::sync::Once;
    static ONCE: Once = Once::new();
    ONCE.call_once(|| {
        for e in engines() {
            let d = vec![vec![1u8; 64]; 2];
            let rec = encode_all(Kind::High, e, 2, 2, 64, &d).unwrap();
            let g = [Given { rec: true, idx: 0 }, Given { rec: true, idx: 1 }];
            let _ = decode_all(Kind::High, e, 2, 2, 64, &g, &d, &rec).unwrap();
        }
    });
}

/// prepared inputs of one round (built outside the measured region)
struct Inputs {
    originals: Vec<Vec<u8>>,
    recovery: Vec<(usize, Vec<u8>)>,
    originals_given: Vec<usize>,
}

fn inputs(dec: bool, c: Cfg, seed: u64) -> Inputs {
    if dec {
        // maximum loss of originals: give min(k, r) recovery shards and the remaining originals
        let nrec = c.k.min(c.r);
        Inputs {
            originals: (0..c.k).map(|i| shard_bytes(seed, false, i, c.b)).collect(),
            recovery: (0..nrec).map(|i| (i, shard_bytes(seed, true, i, c.b))).collect(),
            originals_given: (nrec..c.k).collect(),
        }
    } else {
        Inputs { originals: (0..c.k).map(|i| shard_bytes(seed, false, i, c.b)).collect(), recovery: Vec::new(), originals_given: Vec::new() }
    }
}

/// adds + encode/decode + read (no copying) + drop; returns a digest so the reads cannot be optimised away
fn run_round(obj: &mut Obj, inp: &Inputs) -> Result<u64, String> {
    let mut digest = 0u64;
    match obj {
        Obj::Enc(e) => {
            for s in &inp.originals {
                e.add(s).map_err(|e| format!("add failed: {e:?}"))?;
            }
            e.encode_with(&mut |res| {
                for s in res.recovery_iter() {
                    digest = digest.wrapping_mul(31).wrapping_add(s[0] as u64 + s[s.len() - 1] as u64);
                }
            })
            .map_err(|e| format!("encode failed: {e:?}"))?;
        }
        Obj::Dec(d) => {
            for &i in &inp.originals_given {
                d.add_original(i, &inp.originals[i]).map_err(|e| format!("add failed: {e:?}"))?;
            }
            for (i, s) in &inp.recovery {
                d.add_recovery(*i, s).map_err(|e| format!("add failed: {e:?}"))?;
            }
            d.decode_with(&mut |res| {
                for (i, s) in res.restored_original_iter() {
                    digest = digest.wrapping_mul(31).wrapping_add(i as u64 + s[0] as u64);
                }
            })
            .map_err(|e| format!("decode failed: {e:?}"))?;
        }
    }
    Ok(digest)
}

/// the two largest allocations (>= 1 KiB) a fresh object of this family makes for this configuration
fn need(dec: bool, kind: Kind, eng: Eng, c: Cfg) -> Result<(usize, usize), String> {
    let (obj, seen) = measure(|| Obj::make(dec, kind, eng, c));
    obj.map_err(|e| format!("fresh construction of {c:?} failed: {e:?}"))?;
    Ok((seen.max, seen.second))
}

fn check(c: &AllocCase, st: &mut Stats) -> CheckResult {
    warm_tables();
    let dec = c.dec;
    let mut kind = c.kind;
    let mut eng = c.eng;
    let mut cur = c.init.orient(kind);
    let (mut held1, mut held2) = need(dec, kind, eng, cur)?;
    ensure!(held1 >= 16 * 1024, "harness: generated configuration with a buffer below 16 KiB: {cur:?} needs {held1}");
    let mut obj = Obj::make(dec, kind, eng, cur).map_err(|e| format!("construction failed: {e:?}"))?;
    let mut fits_seen = 0;
    // one warm-up round on the initial configuration
    run_round(&mut obj, &inputs(dec, cur, c.seed))?;

    for (si, step) in c.steps.iter().enumerate() {
        let (k2, e2) = match step.recycle {
            Some((k, e)) if kind != Kind::Rs => (k, e),
            _ => (kind, eng),
        };
        let target = step.cfg.orient(k2);
        let (n1, n2) = need(dec, k2, e2, target)?;
        ensure!(n1 >= 16 * 1024, "harness: generated target with a buffer below 16 KiB");
        let fits = n1 <= held1 && n2 <= held2;
        let inp = inputs(dec, target, c.seed ^ si as u64);
        let recycle = (k2, e2) != (kind, eng);
        // ---- measured region: reset / new-with-work + first round
        let taken = std::mem::replace(&mut obj, Obj::Enc(Box::new(NullEnc)));
        let (res, seen): (Result<(Obj, u64), String>, Seen) = measure(|| {
            let mut o = if recycle {
                taken.recycle(k2, e2, target).map_err(|e| format!("new(Some(work)) failed: {e:?}"))?
            } else {
                let mut o = taken;
                let out = o.apply(&crate::history::Call::Reset(target.k, target.r, target.b))?;
                if !out.is_ok() {
                    return Err(format!("reset to supported {target:?} failed: {}", out.brief()));
                }
                o
            };
            let d = run_round(&mut o, &inp)?;
            Ok((o, d))
        });
        let (o, _digest) = res?;
        obj = o;
        if fits {
            fits_seen += 1;
            if seen.big > 0 {
                fail!(
                    "step {si}: {} from {cur:?} to {target:?} ({} {}), which needs no more working space than the object already holds (needs {n1}+{n2} bytes, holds >= {held1}+{held2}), allocated {} block(s) >= {BIG} bytes (largest {} bytes) during reset + adds + {} + reading the result",
                    if recycle { "new(Some(work))" } else { "reset" }, k2.name(), e2.name(), seen.big, seen.max, if dec { "decode" } else { "encode" }
                );
            }
        } else {
            st.classf("grow_allocated", seen.big > 0);
        }
        held1 = held1.max(n1);
        held2 = held2.max(n2);
        kind = k2;
        eng = e2;
        // ---- further rounds of the same configuration never allocate shard-proportional memory
        for rd in 1..step.rounds {
            let inp = inputs(dec, target, c.seed ^ si as u64 ^ (rd as u64) << 32);
            let (res, seen) = measure(|| run_round(&mut obj, &inp));
            res?;
            if seen.big > 0 {
                fail!(
                    "step {si}: round {rd} on an unchanged configuration {target:?} ({} {}) allocated {} block(s) >= {BIG} bytes (largest {} bytes)",
                    kind.name(), eng.name(), seen.big, seen.max
                );
            }
        }
        st.classf("step", if recycle { "recycle" } else { "reset" });
        st.classf("fits", fits);
        if fits && target != cur {
            st.classf("shrink", format!("{}{}{}", if target.k < cur.k { "k" } else { "" }, if target.r < cur.r { "r" } else { "" }, if target.b < cur.b { "b" } else { "" }));
        }
        cur = target;
    }
    st.classf("subject", if dec { "decoder" } else { "encoder" });
    if fits_seen > 0 {
        st.nontrivial_case("alloc", c);
    }
    Ok(())
}

/// placeholder while the real object is moved into the measured closure
struct NullEnc;

impl DynEnc for NullEnc {
    fn add(&mut self, _: &[u8]) -> Result<(), reed_solomon_simd::Error> {
        Ok(())
    }
    fn encode_with(&mut self, _: &mut dyn FnMut(&reed_solomon_simd::EncoderResult)) -> Result<(), reed_solomon_simd::Error> {
        Ok(())
    }
    fn reset(&mut self, _: usize, _: usize, _: usize) -> Result<(), reed_solomon_simd::Error> {
        Ok(())
    }
    fn into_work(self: Box<Self>) -> Option<reed_solomon_simd::rate::EncoderWork> {
        None
    }
}
