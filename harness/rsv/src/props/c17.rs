//! C17 - working space is reused in place; rounds and non-growing resets never allocate.

use crate::alloc::{measure, Seen};
use crate::engines::*;
use crate::gen::{self, Cfg};
use crate::history::{shard_bytes, Obj, RawCfg};
use crate::props::PropDef;
use crate::runner::{CheckResult, GenPart, PartDyn, Stats, Tier};
use crate::{ensure, fail};
use proptest::prelude::*;
use serde::{Deserialize, Serialize};

pub fn def() -> PropDef {
    PropDef {
        id: "C17",
        rule: "generated histories on one encoder or decoder of every family x engine: a first configuration, then 1..6 steps, each a reset (or into_parts -> new(Some(work)) into another family/engine) to a generated target followed by complete rounds (adds, encode/decode, results read through the borrowing accessors, result dropped). A counting global allocator records every allocation and growing reallocation made by the thread inside the measured region 'reset/new-with-work + adds + encode/decode + read + drop'. need(cfg) is *measured* on a freshly built object of the same family (the sizes of everything its constructor allocates, engine excluded). Every history is executed at three scales: as generated, with every shard size x3, and with every count x2. oracle (metamorphic): in every region whose target fits (need(target) <= the element-wise maximum need over the object's past, at both scales) and in every second or later round of a configuration, the number of bytes allocated must be the same at both scales, i.e. nothing that is allocated there may grow with the shard size or with the counts (a fixed-size scratch buffer is not shard-proportional and is tolerated; it is reported in the class histogram). Every measured buffer is >= 16 KiB. Part big_resets: reset-only sawtooth histories (largest configuration first, then fractions of it) whose largest working space is drawn log-uniformly from 16 KiB to 512 MiB (quick) / 4 GiB (thorough), with a complete round (result read and dropped) after every reset to a small configuration, executed as generated and with doubled shard sizes, same oracle (byte thresholds in fast paths are invisible to small configurations). Part long_runs: one object built for a small configuration, then 1..400 (one case in thirteen: 2100 quick / 66000 thorough) steps measured as ONE region - complete rounds only, fitting resets only (cycling through 1..3 smaller configurations) or reset + round - executed as generated and with tripled shard sizes: the bytes allocated during the whole run must not grow (allocations that happen only every N-th round or at the N-th consecutive reset). non-trivial: target differs from the previous configuration and fits; distinct by full case",
        assumptions: &[
            "an object holds at least the maximum it ever needed (Vec never shrinks); capacity may be larger, which only makes the check claim 'fits' less often than true",
            "all lookup tables and engines are initialised before measuring",
        ],
        parts,
    }
}

#[derive(Clone, Debug, PartialEq, Eq, Hash, Serialize, Deserialize)]
pub struct Step {
    pub cfg: RawCfg,
    /// Some => recycle into this family/engine instead of reset
    pub recycle: Option<(Kind, Eng)>,
    pub rounds: u8,
}

#[derive(Clone, Debug, PartialEq, Eq, Hash, Serialize, Deserialize)]
pub struct AllocCase {
    pub dec: bool,
    pub kind: Kind,
    pub eng: Eng,
    pub init: RawCfg,
    pub steps: Vec<Step>,
    pub seed: u64,
}

/// configurations whose shard buffer is comfortably above the threshold
fn big_cfg() -> BoxedStrategy<RawCfg> {
    prop_oneof![
        // few shards, large shards
        3 => (4usize..=12, 4usize..=12, any::<bool>(), (2048usize..=3072).prop_map(|h| h * 2)).prop_map(|(bounded, other, flip, size)| RawCfg { bounded, other, flip, size }),
        // many positions, one or two blocks
        2 => (1usize..=600, 300usize..=900, any::<bool>(), prop_oneof![Just(2usize), Just(64), Just(66), Just(130)]).prop_map(|(bounded, other, flip, size)| RawCfg { bounded, other, flip, size }),
        // bitmap also above the threshold (>= 8192 positions -> >= 1 KiB of bits)
        1 => (1usize..=64, 9000usize..=20000, any::<bool>(), Just(2usize)).prop_map(|(bounded, other, flip, size)| RawCfg { bounded, other, flip, size }),
    ]
    .boxed()
}

fn strategy(_t: Tier) -> BoxedStrategy<AllocCase> {
    (any::<bool>(), gen::kind_any())
        .prop_flat_map(|(dec, kind)| {
            let step = (big_cfg(), prop::option::weighted(0.3, (gen::kind_rate(), gen::engine())), 1u8..=3).prop_map(|(cfg, recycle, rounds)| Step { cfg, recycle, rounds });
            (gen::engine_for(kind), big_cfg(), prop::collection::vec(step, 1..=6), any::<u64>()).prop_map(move |(eng, init, steps, seed)| AllocCase { dec, kind, eng, init, steps, seed })
        })
        .boxed()
}

fn parts() -> Vec<Box<dyn PartDyn>> {
    vec![
        Box::new(GenPart { name: "alloc", quick: 1_000, thorough: 100_000, shrink_iters: 400, strat: strategy, check }),
        Box::new(GenPart { name: "big_resets", quick: 16, thorough: 150, shrink_iters: 8, strat: big_strategy, check: check_big }),
        Box::new(GenPart { name: "long_runs", quick: 300, thorough: 4_000, shrink_iters: 40, strat: long_strategy, check: check_long }),
    ]
}

// ----------------------------------------------------------------------
// long runs on one object: tens to ~70 000 steps (complete rounds, resets that fit, or both) measured as ONE region.
// An allocation that happens only every N-th round or at the N-th consecutive reset (amortised re-sizing,
// "give memory back" heuristics, periodic compaction) is invisible to histories of a few steps.

#[derive(Clone, Debug, PartialEq, Eq, Hash, Serialize, Deserialize)]
pub struct LongAlloc {
    pub dec: bool,
    pub kind: Kind,
    pub eng: Eng,
    /// the configuration the object is built for (before scaling)
    pub top: (usize, usize, usize),
    /// configurations the steps cycle through, each no larger than `top` in every component
    pub small: Vec<(usize, usize, usize)>,
    pub n: u32,
    /// 0: rounds on `top` only; 1: resets only; 2: reset + complete round
    pub mode: u8,
}

fn long_strategy(t: Tier) -> BoxedStrategy<LongAlloc> {
    let n = prop_oneof![
        4 => 20u32..=80,
        5 => 1u32..=400,
        3 => (5u32..=10, 0u32..5).prop_map(|(a, d)| (1u32 << a) + d - 2),
        1 => Just(t.pick(2_100u32, 66_000u32)),
    ];
    (any::<bool>(), gen::kind_any(), any::<u8>(), (2usize..=12, 2usize..=12, (512usize..=3072).prop_map(|h| h * 2)), prop::collection::vec((any::<u16>(), any::<u16>(), any::<u16>()), 1..=3), n, 0u8..3)
        .prop_map(|(dec, kind, eraw, top, raw, n, mode)| {
            let fast: Vec<Eng> = [Eng::NoSimd, Eng::Ssse3, Eng::Avx2, Eng::Default].iter().copied().filter(|e| e.available()).collect();
            let eng = if kind == Kind::Rs { Eng::Default } else { fast[(eraw as usize * fast.len()) >> 8] };
            let small = raw
                .into_iter()
                .map(|(a, b, c)| (1 + gen::idx_map(a, top.0 - 1), 1 + gen::idx_map(b, top.1 - 1), 2 + gen::idx_map(c, (top.2 - 2) / 2) * 2))
                .collect();
            // very long runs: tiny shards
            let top = if n > 5000 { (top.0.min(3), top.1.min(3), top.2) } else { top };
            LongAlloc { dec, kind, eng, top, small, n, mode }
        })
        .boxed()
}

fn long_execute(c: &LongAlloc, bs: usize) -> Result<(Seen, u32), crate::runner::Fail> {
    let top = Cfg { k: c.top.0, r: c.top.1, b: c.top.2 * bs };
    let held = need(c.dec, c.kind, c.eng, top)?;
    let mut obj = Obj::make(c.dec, c.kind, c.eng, top).map_err(|e| format!("construction failed: {e:?}"))?;
    let top_inp = inputs(c.dec, top, 7);
    run_round(&mut obj, &top_inp)?;
    // the targets, those that fit (measured need), with their prepared inputs
    let mut targets = Vec::new();
    for &(k, r, b) in &c.small {
        let t = Cfg { k: k.min(top.k), r: r.min(top.r), b: (b * bs).min(top.b) };
        if fits_in(&need(c.dec, c.kind, c.eng, t)?, &held) {
            targets.push((t, inputs(c.dec, t, 11)));
        }
    }
    if targets.is_empty() {
        targets.push((top, inputs(c.dec, top, 11)));
    }
    let steps = c.n;
    let (res, seen) = measure(|| -> Result<u64, String> {
        let mut d = 0u64;
        for i in 0..steps {
            if c.mode == 0 {
                d ^= run_round(&mut obj, &top_inp)?;
                continue;
            }
            let (t, inp) = &targets[i as usize % targets.len()];
            let out = obj.apply(&crate::history::Call::Reset(t.k, t.r, t.b))?;
            if !out.is_ok() {
                return Err(format!("reset #{i} to supported {t:?} failed: {}", out.brief()));
            }
            if c.mode == 2 {
                d ^= run_round(&mut obj, inp)?;
            }
        }
        Ok(d)
    });
    res?;
    Ok((seen, targets.len() as u32))
}

fn check_long(c: &LongAlloc, st: &mut Stats) -> CheckResult {
    warm_tables();
    let (a, _) = long_execute(c, 1)?;
    let (b, _) = long_execute(c, 3)?;
    if b.bytes > a.bytes {
        fail!(
            "{} steps ({}) on one {} that already owns its working space ({} {}, built for {:?}, every step fits): {} bytes are allocated during the run as generated and {} bytes when every shard size is tripled (largest single allocation {} -> {}): memory proportional to the shard size is allocated again",
            c.n, ["complete rounds", "resets", "reset + complete round"][c.mode as usize % 3], if c.dec { "decoder" } else { "encoder" }, c.kind.name(), c.eng.name(), c.top, a.bytes, b.bytes, a.max, b.max
        );
    }
    st.classf("steps_log2", 32 - c.n.leading_zeros());
    st.classf("mode", ["rounds", "resets", "reset+round"][c.mode as usize % 3]);
    st.classf("run_allocated_fixed_bytes", a.bytes > 0);
    if c.n >= 32 {
        st.nontrivial_case("long_runs", c);
    }
    Ok(())
}

// ----------------------------------------------------------------------
// reset-only sawtooth histories over working spaces up to ~1 GiB: size-dependent fast paths
// (thresholds in bytes) are invisible to the small configurations of the part above

#[derive(Clone, Debug, PartialEq, Eq, Hash, Serialize, Deserialize)]
pub struct BigCase {
    pub dec: bool,
    pub kind: Kind,
    pub eng: Eng,
    pub bounded: usize,
    pub other: usize,
    pub flip: bool,
    /// log2 of the largest working space in bytes, times 4
    pub top_q: u8,
    /// every step's working space as a fraction (numerator over 64) of the largest; the object starts at the largest
    pub fractions: Vec<u8>,
}

fn big_strategy(t: Tier) -> BoxedStrategy<BigCase> {
    // sawtooth: largest first, then down and up again below the maximum, so that every case contains
    // resets that fit with small and with large growth relative to what the buffer currently uses
    let max_q = t.pick(4 * 29u8, 4 * 32u8); // 512 MiB quick, 4 GiB thorough (before the x2 scale)
    let frac = prop_oneof![Just(64u8), Just(48), Just(32), Just(16), Just(1), Just(0), 0u8..=64];
    (any::<bool>(), gen::kind_rate(), gen::engine(), prop_oneof![1usize..=8, 1usize..=300], prop_oneof![1usize..=8, 1usize..=600], any::<bool>(), prop_oneof![2 => (4 * 14u8)..=(4 * 22u8), 8 => (4 * 22u8)..=(4 * 29u8), 1 => (4 * 29u8)..=max_q], prop::collection::vec(frac, 2..=5))
        .prop_map(|(dec, kind, eng, bounded, other, flip, top_q, fractions)| BigCase { dec, kind, eng, bounded, other, flip, top_q, fractions })
        .boxed()
}

fn big_cfg_of(c: &BigCase, frac: u8, scale: usize) -> Cfg {
    let raw = RawCfg { bounded: c.bounded, other: c.other, flip: c.flip, size: 2 };
    let cfg = raw.orient(c.kind);
    let positions = cfg.positions(c.kind); // upper bound of the working positions of either codec
    let top = 2f64.powf(c.top_q as f64 / 4.0);
    let bytes = (top * frac as f64 / 64.0) as usize;
    let b = ((bytes / positions.max(1)) / 2 * 2).max(2) * scale;
    Cfg { k: cfg.k, r: cfg.r, b }
}

use crate::runner::with_memory_budget;

fn check_big(c: &BigCase, st: &mut Stats) -> CheckResult {
    warm_tables();
    let top = 2f64.powf(c.top_q as f64 / 4.0) as usize;
    // object + fresh object for need(), at scale 2
    with_memory_budget(top * 4 + (1 << 20), || check_big_inner(c, st))
}

fn check_big_inner(c: &BigCase, st: &mut Stats) -> CheckResult {
    let mut obs: Vec<Vec<(bool, Seen, Cfg)>> = Vec::new();
    for scale in [1usize, 2] {
        let first = big_cfg_of(c, 64, scale);
        let mut held = need(c.dec, c.kind, c.eng, first)?;
        let mut obj = Obj::make(c.dec, c.kind, c.eng, first).map_err(|e| format!("construction of {first:?} failed: {e:?}"))?;
        let mut v = Vec::new();
        for &f in &c.fractions {
            let target = big_cfg_of(c, f, scale);
            let n = need(c.dec, c.kind, c.eng, target)?;
            let fits = fits_in(&n, &held);
            let (res, seen) = measure(|| obj.apply(&crate::history::Call::Reset(target.k, target.r, target.b)));
            let out = res?;
            ensure!(out.is_ok(), "reset to supported {target:?} failed: {}", out.brief());
            v.push((fits, seen, target));
            hold_more(&mut held, &n);
            // a complete round whose result is read and dropped, when that is cheap (small target): anything
            // the implementation does to its working space on drop happens before the next reset is measured
            if target.positions(c.kind) * target.b <= (16 << 20) {
                run_round(&mut obj, &inputs(c.dec, target, c.top_q as u64))?;
            }
        }
        obs.push(v);
    }
    let mut any_fit = false;
    for (i, (a, b)) in obs[0].iter().zip(&obs[1]).enumerate() {
        if a.0 && b.0 {
            any_fit = true;
            if b.1.bytes > a.1.bytes {
                fail!(
                    "reset #{} to {:?} ({} {}): the target needs no more working space than the object already holds, yet reset allocates {} bytes (largest block {}), and {} bytes when every shard size is doubled: working space the object owns is being re-allocated",
                    i + 1, a.2, c.kind.name(), c.eng.name(), a.1.bytes, a.1.max, b.1.bytes
                );
            }
        }
        st.classf("fits", a.0);
    }
    st.classf("top_MiB_log2", c.top_q as i64 / 4 - 20);
    if any_fit {
        st.nontrivial_case("big_resets", c);
    }
    Ok(())
}

fn warm_tables() {
    use std::sync::Once;
    static ONCE: Once = Once::new();
    ONCE.call_once(|| {
        for e in engines() {
            let d = vec![vec![1u8; 64]; 2];
            let rec = encode_all(Kind::High, e, 2, 2, 64, &d).unwrap();
            let g = [Given { rec: true, idx: 0 }, Given { rec: true, idx: 1 }];
            let _ = decode_all(Kind::High, e, 2, 2, 64, &g, &d, &rec).unwrap();
        }
    });
}

/// prepared inputs of one round (built outside the measured region)
struct Inputs {
    originals: Vec<Vec<u8>>,
    recovery: Vec<(usize, Vec<u8>)>,
    originals_given: Vec<usize>,
}

fn inputs(dec: bool, c: Cfg, seed: u64) -> Inputs {
    if dec {
        // maximum loss of originals: give min(k, r) recovery shards and the remaining originals
        let nrec = c.k.min(c.r);
        Inputs {
            originals: (0..c.k).map(|i| shard_bytes(seed, false, i, c.b)).collect(),
            recovery: (0..nrec).map(|i| (i, shard_bytes(seed, true, i, c.b))).collect(),
            originals_given: (nrec..c.k).collect(),
        }
    } else {
        Inputs { originals: (0..c.k).map(|i| shard_bytes(seed, false, i, c.b)).collect(), recovery: Vec::new(), originals_given: Vec::new() }
    }
}

/// adds + encode/decode + read (no copying) + drop; returns a digest so the reads cannot be optimised away
fn run_round(obj: &mut Obj, inp: &Inputs) -> Result<u64, String> {
    let mut digest = 0u64;
    match obj {
        Obj::Enc(e) => {
            for s in &inp.originals {
                e.add(s).map_err(|e| format!("add failed: {e:?}"))?;
            }
            e.encode_with(&mut |res| {
                for s in res.recovery_iter() {
                    digest = digest.wrapping_mul(31).wrapping_add(s[0] as u64 + s[s.len() - 1] as u64);
                }
            })
            .map_err(|e| format!("encode failed: {e:?}"))?;
        }
        Obj::Dec(d) => {
            for &i in &inp.originals_given {
                d.add_original(i, &inp.originals[i]).map_err(|e| format!("add failed: {e:?}"))?;
            }
            for (i, s) in &inp.recovery {
                d.add_recovery(*i, s).map_err(|e| format!("add failed: {e:?}"))?;
            }
            d.decode_with(&mut |res| {
                for (i, s) in res.restored_original_iter() {
                    digest = digest.wrapping_mul(31).wrapping_add(i as u64 + s[0] as u64);
                }
            })
            .map_err(|e| format!("decode failed: {e:?}"))?;
        }
    }
    Ok(digest)
}

/// Working-space need of a configuration, *measured*: the sizes (descending) of everything a fresh
/// codec of this family allocates in `new` (the engine is built outside the measurement).
fn need(dec: bool, kind: Kind, eng: Eng, c: Cfg) -> Result<Vec<usize>, String> {
    use reed_solomon_simd::rate::*;
    // ReedSolomonEncoder/Decoder == DefaultRate<DefaultEngine> (C09); its constructor builds the engine itself
    let (kind, eng) = if kind == Kind::Rs { (Kind::Default, Eng::Default) } else { (kind, eng) };
    let seen: Seen = crate::with_engine!(eng, E, {
        let e = <E as Mk>::mk();
        macro_rules! go {
            ($T:ty) => {{
                let (r, seen) = measure(|| <$T>::new(c.k, c.r, c.b, e, None).map(|_| ()));
                r.map_err(|e| format!("fresh construction of {c:?} failed: {e:?}"))?;
                seen
            }};
        }
        match (dec, kind) {
            (false, Kind::High) => go!(HighRateEncoder<E>),
            (false, Kind::Low) => go!(LowRateEncoder<E>),
            (false, _) => go!(DefaultRateEncoder<E>),
            (true, Kind::High) => go!(HighRateDecoder<E>),
            (true, Kind::Low) => go!(LowRateDecoder<E>),
            (true, _) => go!(DefaultRateDecoder<E>),
        }
    });
    if seen.count > 12 {
        return Err(format!("harness: construction made {} allocations; need vector would be truncated", seen.count));
    }
    let mut v: Vec<usize> = seen.sizes[..seen.count].to_vec();
    v.sort_unstable_by(|a, b| b.cmp(a));
    Ok(v)
}

/// need <= held, element by element (both descending)
fn fits_in(need: &[usize], held: &[usize]) -> bool {
    need.iter().enumerate().all(|(i, &n)| n <= held.get(i).copied().unwrap_or(0))
}

fn hold_more(held: &mut Vec<usize>, need: &[usize]) {
    for (i, &n) in need.iter().enumerate() {
        if i < held.len() {
            held[i] = held[i].max(n);
        } else {
            held.push(n);
        }
    }
}

#[derive(Clone, Debug)]
struct RegionObs {
    label: String,
    fits: bool,
    seen: Seen,
    changed: bool,
}

fn scaled(rc: &RawCfg, bs: usize, cs: usize) -> RawCfg {
    RawCfg { bounded: rc.bounded * cs, other: rc.other * cs, flip: rc.flip, size: rc.size * bs }
}

/// executes the history with shard sizes x bs and counts x cs; one observation per measured region
fn execute(c: &AllocCase, bs: usize, cs: usize) -> Result<Vec<RegionObs>, crate::runner::Fail> {
    let dec = c.dec;
    let mut kind = c.kind;
    let mut eng = c.eng;
    let mut cur = scaled(&c.init, bs, cs).orient(kind);
    let mut held = need(dec, kind, eng, cur)?;
    ensure!(held[0] >= 16 * 1024, "harness: generated configuration with a buffer below 16 KiB: {cur:?} needs {held:?}");
    let mut obj = Obj::make(dec, kind, eng, cur).map_err(|e| format!("construction failed: {e:?}"))?;
    let mut obs = Vec::new();
    // one warm-up round on the initial configuration
    run_round(&mut obj, &inputs(dec, cur, c.seed))?;

    for (si, step) in c.steps.iter().enumerate() {
        let (k2, e2) = match step.recycle {
            Some((k, e)) if kind != Kind::Rs => (k, e),
            _ => (kind, eng),
        };
        let target = scaled(&step.cfg, bs, cs).orient(k2);
        let n = need(dec, k2, e2, target)?;
        let fits = fits_in(&n, &held);
        let inp = inputs(dec, target, c.seed ^ si as u64);
        let recycle = (k2, e2) != (kind, eng);
        // ---- measured region: reset / new-with-work + first round
        let taken = std::mem::replace(&mut obj, Obj::Enc(Box::new(NullEnc)));
        let (res, seen): (Result<(Obj, u64), String>, Seen) = measure(|| {
            let mut o = if recycle {
                taken.recycle(k2, e2, target).map_err(|e| format!("new(Some(work)) failed: {e:?}"))?
            } else {
                let mut o = taken;
                let out = o.apply(&crate::history::Call::Reset(target.k, target.r, target.b))?;
                if !out.is_ok() {
                    return Err(format!("reset to supported {target:?} failed: {}", out.brief()));
                }
                o
            };
            let d = run_round(&mut o, &inp)?;
            Ok((o, d))
        });
        let (o, _digest) = res?;
        obj = o;
        obs.push(RegionObs {
            label: format!("step {si}: {} from {cur:?} to {target:?} ({} {}) + first round", if recycle { "new(Some(work))" } else { "reset" }, k2.name(), e2.name()),
            fits,
            seen,
            changed: target != cur,
        });
        hold_more(&mut held, &n);
        kind = k2;
        eng = e2;
        // ---- further rounds of the same configuration
        for rd in 1..step.rounds {
            let inp = inputs(dec, target, c.seed ^ si as u64 ^ (rd as u64) << 32);
            let (res, seen) = measure(|| run_round(&mut obj, &inp));
            res?;
            obs.push(RegionObs { label: format!("step {si}: round {rd} on the unchanged configuration {target:?} ({} {})", kind.name(), eng.name()), fits: true, seen, changed: false });
        }
        cur = target;
    }
    Ok(obs)
}

fn check(c: &AllocCase, st: &mut Stats) -> CheckResult {
    warm_tables();
    let base = execute(c, 1, 1)?;
    let mut fits_seen = 0;
    for (name, bs, cs) in [("shard size x3", 3usize, 1usize), ("counts x2", 1, 2)] {
        let other = execute(c, bs, cs)?;
        ensure!(other.len() == base.len(), "harness: region lists differ between scales");
        for (a, b) in base.iter().zip(&other) {
            if a.fits && b.fits && b.seen.bytes > a.seen.bytes {
                fail!(
                    "{}: the target needs no more working space than the object already holds, yet the bytes allocated in this region grow with the configuration: {} bytes as generated, {} bytes with {name} (largest single allocation {} -> {} bytes); memory proportional to the shards is being allocated instead of reused",
                    a.label, a.seen.bytes, b.seen.bytes, a.seen.max, b.seen.max
                );
            }
        }
    }
    for a in &base {
        st.classf("fits", a.fits);
        if a.fits {
            if a.changed {
                fits_seen += 1;
            }
            // not a violation: reported so that a reader sees fixed-size scratch allocations
            st.classf("fits_region_fixed_alloc_ge_1KiB", a.seen.big > 0);
        } else {
            st.classf("grow_allocated", a.seen.big > 0);
        }
    }
    st.classf("subject", if c.dec { "decoder" } else { "encoder" });
    st.classf("recycles", c.steps.iter().filter(|s| s.recycle.is_some()).count().min(3));
    if fits_seen > 0 {
        st.nontrivial_case("alloc", c);
    }
    Ok(())
}

/// placeholder while the real object is moved into the measured closure
struct NullEnc;

impl DynEnc for NullEnc {
    fn add(&mut self, _: &[u8]) -> Result<(), reed_solomon_simd::Error> {
        Ok(())
    }
    fn encode_with(&mut self, _: &mut dyn FnMut(&reed_solomon_simd::EncoderResult)) -> Result<(), reed_solomon_simd::Error> {
        Ok(())
    }
    fn reset(&mut self, _: usize, _: usize, _: usize) -> Result<(), reed_solomon_simd::Error> {
        Ok(())
    }
    fn into_work(self: Box<Self>) -> Option<reed_solomon_simd::rate::EncoderWork> {
        None
    }
}
