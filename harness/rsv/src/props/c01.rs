//! C01 - any original_count of the shards restore every missing original.

use crate::engines::*;
use crate::gen::{self, Cfg, DataSpec, RecvSpec, Round};
use crate::props::PropDef;
use crate::runner::{CheckResult, GenPart, PartDyn, Stats, Tier};
use crate::{ensure, fail};
use proptest::prelude::*;
use serde::{Deserialize, Serialize};
use std::collections::BTreeMap;

pub fn def() -> PropDef {
    PropDef {
        id: "C01",
        rule: "generated: codec family x engine x (k,r) class (tiny/small/pow2-edge/multi-chunk/medium/envelope corner) x even shard size x data spec x received-set spec (size k | k+1 | uniform | all; 8 loss-pattern families; 5 arrival orders); part big_roundtrip: 1..5 (sometimes up to 400, rarely up to 6000) + 1..5 (400, 6000) shards whose decoder working set is log-uniform 8 MiB .. 768 MiB (quick) / 2 GiB (thorough). oracle: decode Ok and restored map == exactly the withheld originals. non-trivial: >=1 original withheld and >=1 recovery shard given; distinct by full case",
        assumptions: &["shard contents and received sets are expanded deterministically from generated specs"],
        parts,
    }
}

fn parts() -> Vec<Box<dyn PartDyn>> {
    vec![
        Box::new(GenPart {
            name: "roundtrip",
            quick: 60_000,
            thorough: 800_000,
            shrink_iters: 600,
            strat: |t| gen::round(t),
            check: check_round,
        }),
        Box::new(GenPart {
            name: "oneshot",
            quick: 12_000,
            thorough: 150_000,
            shrink_iters: 600,
            strat: |t| gen::round_of_kind(Kind::Rs, t.pick(1200, 3000)),
            check: check_oneshot,
        }),
        Box::new(GenPart { name: "big_roundtrip", quick: 6, thorough: 160, shrink_iters: 12, strat: big_strategy, check: check_big }),
        Box::new(GenPart {
            name: "corners",
            quick: 24,
            thorough: 1500,
            shrink_iters: 40,
            strat: corner_strategy,
            check: check_corner,
        }),
    ]
}

/// Shared oracle: `restored` must be exactly the withheld originals.
pub fn check_restored(
    k: usize,
    b: usize,
    given: &[Given],
    data: &[Vec<u8>],
    restored: &BTreeMap<usize, Vec<u8>>,
) -> CheckResult {
    let mut have = vec![false; k];
    for g in given {
        if !g.rec {
            have[g.idx] = true;
        }
    }
    let mut missing = 0;
    for i in 0..k {
        match (have[i], restored.get(&i)) {
            (true, None) => {}
            (true, Some(_)) => fail!("original {i} was given but is reported as restored"),
            (false, None) => fail!("original {i} was withheld but is not restored"),
            (false, Some(s)) => {
                missing += 1;
                ensure!(s.len() == b, "restored original {i} has length {} != {b}", s.len());
                if s != &data[i] {
                    let at = s.iter().zip(&data[i]).position(|(x, y)| x != y).unwrap();
                    fail!("restored original {i} differs from the encoded original at byte {at}");
                }
            }
        }
    }
    ensure!(
        restored.len() == missing,
        "restored map has {} entries, expected {missing}: keys outside 0..k reported",
        restored.len()
    );
    Ok(())
}

pub fn classify_round(rd: &Round, given: &[Given], st: &mut Stats) -> bool {
    let Cfg { k, r, b } = rd.cfg;
    let n_orig = given.iter().filter(|g| !g.rec).count();
    let n_rec = given.len() - n_orig;
    st.classf("kind", rd.kind.name());
    st.classf("engine", rd.eng.name());
    st.classf("counts", gen::count_class(k, r));
    st.classf("chunks", gen::chunk_shape(k, r, rd.kind.is_high(k, r)));
    st.classf("rate", if rd.kind.is_high(k, r) { "high" } else { "low" });
    st.classf("size", gen::size_class(b));
    st.classf("loss", if given.len() == k { "max" } else if given.len() == k + r { "none" } else { "partial" });
    st.classf("pattern", gen::PATTERN_NAMES[rd.recv.pattern as usize % 10]);
    n_orig < k && n_rec > 0
}

fn check_round(rd: &Round, st: &mut Stats) -> CheckResult {
    let Cfg { k, r, b } = rd.cfg;
    let data = rd.data.expand(k, b);
    let rec = match encode_all(rd.kind, rd.eng, k, r, b, &data) {
        Ok(v) => v,
        Err(e) => fail!("encode of a supported configuration failed: {e:?}"),
    };
    ensure!(rec.len() == r, "encoder produced {} recovery shards, expected {r}", rec.len());
    for (j, s) in rec.iter().enumerate() {
        ensure!(s.len() == b, "recovery shard {j} has length {} != {b}", s.len());
    }
    let given = rd.recv.arrival(k, r);
    let restored = match decode_all(rd.kind, rd.eng, k, r, b, &given, &data, &rec) {
        Ok(v) => v,
        Err(e) => fail!("decode with {} >= k shards failed: {e:?}", given.len()),
    };
    check_restored(k, b, &given, &data, &restored)?;
    if classify_round(rd, &given, st) {
        st.nontrivial_case("roundtrip", rd);
    }
    Ok(())
}

fn check_oneshot(rd: &Round, st: &mut Stats) -> CheckResult {
    let Cfg { k, r, b } = rd.cfg;
    let data = rd.data.expand(k, b);
    let rec = match reed_solomon_simd::encode(k, r, &data) {
        Ok(v) => v,
        Err(e) => fail!("one-shot encode failed: {e:?}"),
    };
    ensure!(rec.len() == r, "one-shot encode produced {} shards, expected {r}", rec.len());
    for (j, s) in rec.iter().enumerate() {
        ensure!(s.len() == b, "recovery shard {j} has length {} != {b}", s.len());
    }
    let given = rd.recv.arrival(k, r);
    let orig: Vec<(usize, &Vec<u8>)> = given.iter().filter(|g| !g.rec).map(|g| (g.idx, &data[g.idx])).collect();
    let recv: Vec<(usize, &Vec<u8>)> = given.iter().filter(|g| g.rec).map(|g| (g.idx, &rec[g.idx])).collect();
    let restored = match reed_solomon_simd::decode(k, r, orig, recv) {
        Ok(v) => v,
        Err(e) => fail!("one-shot decode with {} >= k shards failed: {e:?}", given.len()),
    };
    let restored: BTreeMap<usize, Vec<u8>> = restored.into_iter().collect();
    check_restored(k, b, &given, &data, &restored)?;
    if classify_round(rd, &given, st) {
        st.nontrivial_case("oneshot", rd);
    }
    Ok(())
}

// ----------------------------------------------------------------------
// envelope corners at maximum loss

#[derive(Clone, Debug, Serialize, Deserialize)]
pub struct CornerCase {
    pub kind: Kind,
    pub eng: Eng,
    pub k: usize,
    pub r: usize,
    pub b: usize,
    pub pattern: u8,
    pub seed: u64,
    /// size of the received set: 0 exactly k (maximum loss), 1 k+1, 2 uniform in k..=k+r, 3 all k+r shards
    #[serde(default)]
    pub n_mode: u8,
}

pub fn corner_n_mode() -> BoxedStrategy<u8> {
    prop_oneof![5 => Just(0u8), 1 => Just(1u8), 1 => Just(2u8), 2 => Just(3u8)].boxed()
}

fn corner_strategy(tier: Tier) -> BoxedStrategy<CornerCase> {
    gen::kind_any()
        .prop_flat_map(move |kind| {
            let corners = gen::envelope_corners(kind);
            let sizes: Vec<usize> = tier.pick(vec![2], vec![2, 2, 64, 66]);
            (
                0..corners.len(),
                gen::engine_for(kind),
                0..sizes.len(),
                prop_oneof![Just(1u8), Just(0u8), Just(3u8), Just(5u8)],
                any::<u64>(),
                corner_n_mode(),
            )
                .prop_map(move |(ci, eng, si, pattern, seed, n_mode)| CornerCase {
                    kind,
                    eng,
                    k: corners[ci].0,
                    r: corners[ci].1,
                    b: sizes[si],
                    pattern,
                    seed,
                    n_mode,
                })
        })
        .boxed()
}

pub fn check_corner(c: &CornerCase, st: &mut Stats) -> CheckResult {
    // Naive is ~20x slower on 65536 positions; keep the case but at the smallest size
    let b = if c.eng == Eng::Naive || c.eng == Eng::Neon { 2 } else { c.b };
    let rd = Round {
        kind: c.kind,
        eng: c.eng,
        cfg: Cfg { k: c.k, r: c.r, b },
        data: DataSpec { mode: 0, seed: c.seed },
        recv: RecvSpec { n_mode: c.n_mode, pattern: c.pattern, order: 2, seed: c.seed },
    };
    check_round(&rd, st)?;
    st.classf("corner_received", ["k", "k+1", "uniform", "all"][c.n_mode as usize % 4]);
    st.classf("corner", format!("{}:{}", c.k, c.r));
    Ok(())
}

// ----------------------------------------------------------------------
// very long shards with a real oracle: working sets from 8 MiB to 768 MiB (quick) / 2 GiB (thorough),
// log-uniform. The other big-memory parts (C05, C14, C17) compare the code with itself; thresholds and
// blocked loops in shared helpers (xor, formal derivative) need the round-trip oracle at these sizes.

#[derive(Clone, Debug, PartialEq, Eq, Hash, Serialize, Deserialize)]
pub struct BigRound {
    pub kind: Kind,
    pub eng: Eng,
    pub k: usize,
    pub r: usize,
    /// log2 of the decoder working set in bytes, times 4
    pub bytes_q: u8,
    pub jitter: usize,
    pub recv: RecvSpec,
    pub seed: u64,
}

fn big_strategy(t: Tier) -> BoxedStrategy<BigRound> {
    let max_q = t.pick(4 * 29 + 2u8, 4 * 31u8);
    // few huge shards, or tens to hundreds of long shards (blocked loops keyed on shard count AND length)
    let cnt = || prop_oneof![6 => 1usize..=5, 2 => 6usize..=64, 2 => 65usize..=400, 1 => 401usize..=6000];
    (gen::kind_any(), any::<u8>(), cnt(), cnt(), prop_oneof![1 => (4 * 23u8)..=(4 * 26u8), 3 => (4 * 26u8)..=max_q], 0usize..2048, gen::recv_spec(), any::<u64>())
        .prop_map(|(kind, eraw, k, r, bytes_q, jitter, recv, seed)| {
            let fast: Vec<Eng> = [Eng::NoSimd, Eng::Ssse3, Eng::Avx2, Eng::Default].iter().copied().filter(|e| e.available()).collect();
            let eng = if kind == Kind::Rs { Eng::Default } else { fast[(eraw as usize * fast.len()) >> 8] };
            // stay inside the family's envelope (all these counts are far inside) and keep jitter small for many shards
            let jitter = if k + r > 10 { jitter % 64 } else { jitter };
            BigRound { kind, eng, k, r, bytes_q, jitter, recv, seed }
        })
        .boxed()
}

fn check_big(c: &BigRound, st: &mut Stats) -> CheckResult {
    let positions = Cfg { k: c.k, r: c.r, b: 2 }.positions(c.kind);
    let bytes = 2f64.powf(c.bytes_q as f64 / 4.0) as usize;
    let b = ((bytes / positions) / 2 * 2 + c.jitter * 2).max(2);
    // originals + recovery + encoder and decoder working spaces + restored copies
    let need = (c.k + c.r) * b * 2 + positions * b * 2;
    crate::runner::with_memory_budget(need, || {
        let mut rng = gen::Xs::new(c.seed);
        let data: Vec<Vec<u8>> = (0..c.k)
            .map(|_| {
                let mut v = vec![0u8; b];
                rng.fill(&mut v);
                v
            })
            .collect();
        let rec = match encode_all(c.kind, c.eng, c.k, c.r, b, &data) {
            Ok(v) => v,
            Err(e) => fail!("encode of {}+{} shards of {b} bytes failed: {e:?}", c.k, c.r),
        };
        ensure!(rec.len() == c.r && rec.iter().all(|s| s.len() == b), "wrong number or size of recovery shards");
        // maximum loss unless the spec says otherwise
        let given = c.recv.arrival(c.k, c.r);
        let restored = match decode_all(c.kind, c.eng, c.k, c.r, b, &given, &data, &rec) {
            Ok(v) => v,
            Err(e) => fail!("decode with {} >= k shards of {b} bytes failed: {e:?}", given.len()),
        };
        check_restored(c.k, b, &given, &data, &restored).map_err(|f| crate::runner::Fail { sig: None, msg: format!("{}+{} shards of {b} bytes ({} {}): {}", c.k, c.r, c.kind.name(), c.eng.name(), f.msg) })?;
        st.classf("working_set_MiB_log2", c.bytes_q as i64 / 4 - 20);
        st.classf("engine", c.eng.name());
        if !restored.is_empty() {
            st.nontrivial_case("big_roundtrip", c);
        }
        Ok(())
    })
}
