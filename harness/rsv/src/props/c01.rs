//! C01 - any original_count of the shards restore every missing original.

use crate::engines::*;
use crate::gen::{self, Cfg, DataSpec, RecvSpec, Round};
use crate::props::PropDef;
use crate::runner::{CheckResult, GenPart, PartDyn, Stats, Tier};
use crate::{ensure, fail};
use proptest::prelude::*;
use serde::{Deserialize, Serialize};
use std::collections::BTreeMap;

pub fn def() -> PropDef {
    PropDef {
        id: "C01",
        rule: "generated: codec family x engine x (k,r) class (tiny/small/pow2-edge/multi-chunk/medium/envelope corner) x even shard size x data spec x received-set spec (size k | k+1 | uniform | all; 8 loss-pattern families; 5 arrival orders); oracle: decode Ok and restored map == exactly the withheld originals. non-trivial: >=1 original withheld and >=1 recovery shard given; distinct by full case",
        assumptions: &["shard contents and received sets are expanded deterministically from generated specs"],
        parts,
    }
}

fn parts() -> Vec<Box<dyn PartDyn>> {
    vec![
        Box::new(GenPart {
            name: "roundtrip",
            quick: 60_000,
            thorough: 800_000,
            shrink_iters: 600,
            strat: |t| gen::round(t),
            check: check_round,
        }),
        Box::new(GenPart {
            name: "oneshot",
            quick: 12_000,
            thorough: 150_000,
            shrink_iters: 600,
            strat: |t| gen::round_of_kind(Kind::Rs, t.pick(1200, 3000)),
            check: check_oneshot,
        }),
        Box::new(GenPart {
            name: "corners",
            quick: 24,
            thorough: 1500,
            shrink_iters: 40,
            strat: corner_strategy,
            check: check_corner,
        }),
    ]
}

/// Shared oracle: `restored` must be exactly the withheld originals.
pub fn check_restored(
    k: usize,
    b: usize,
    given: &[Given],
    data: &[Vec<u8>],
    restored: &BTreeMap<usize, Vec<u8>>,
) -> CheckResult {
    let mut have = vec![false; k];
    for g in given {
        if !g.rec {
            have[g.idx] = true;
        }
    }
    let mut missing = 0;
    for i in 0..k {
        match (have[i], restored.get(&i)) {
            (true, None) => {}
            (true, Some(_)) => fail!("original {i} was given but is reported as restored"),
            (false, None) => fail!("original {i} was withheld but is not restored"),
            (false, Some(s)) => {
                missing += 1;
                ensure!(s.len() == b, "restored original {i} has length {} != {b}", s.len());
                if s != &data[i] {
                    let at = s.iter().zip(&data[i]).position(|(x, y)| x != y).unwrap();
                    fail!("restored original {i} differs from the encoded original at byte {at}");
                }
            }
        }
    }
    ensure!(
        restored.len() == missing,
        "restored map has {} entries, expected {missing}: keys outside 0..k reported",
        restored.len()
    );
    Ok(())
}

pub fn classify_round(rd: &Round, given: &[Given], st: &mut Stats) -> bool {
    let Cfg { k, r, b } = rd.cfg;
    let n_orig = given.iter().filter(|g| !g.rec).count();
    let n_rec = given.len() - n_orig;
    st.classf("kind", rd.kind.name());
    st.classf("engine", rd.eng.name());
    st.classf("counts", gen::count_class(k, r));
    st.classf("chunks", gen::chunk_shape(k, r, rd.kind.is_high(k, r)));
    st.classf("rate", if rd.kind.is_high(k, r) { "high" } else { "low" });
    st.classf("size", gen::size_class(b));
    st.classf("loss", if given.len() == k { "max" } else if given.len() == k + r { "none" } else { "partial" });
    st.classf("pattern", gen::PATTERN_NAMES[rd.recv.pattern as usize % 10]);
    n_orig < k && n_rec > 0
}

fn check_round(rd: &Round, st: &mut Stats) -> CheckResult {
    let Cfg { k, r, b } = rd.cfg;
    let data = rd.data.expand(k, b);
    let rec = match encode_all(rd.kind, rd.eng, k, r, b, &data) {
        Ok(v) => v,
        Err(e) => fail!("encode of a supported configuration failed: {e:?}"),
    };
    ensure!(rec.len() == r, "encoder produced {} recovery shards, expected {r}", rec.len());
    for (j, s) in rec.iter().enumerate() {
        ensure!(s.len() == b, "recovery shard {j} has length {} != {b}", s.len());
    }
    let given = rd.recv.arrival(k, r);
    let restored = match decode_all(rd.kind, rd.eng, k, r, b, &given, &data, &rec) {
        Ok(v) => v,
        Err(e) => fail!("decode with {} >= k shards failed: {e:?}", given.len()),
    };
    check_restored(k, b, &given, &data, &restored)?;
    if classify_round(rd, &given, st) {
        st.nontrivial_case("roundtrip", rd);
    }
    Ok(())
}

fn check_oneshot(rd: &Round, st: &mut Stats) -> CheckResult {
    let Cfg { k, r, b } = rd.cfg;
    let data = rd.data.expand(k, b);
    let rec = match reed_solomon_simd::encode(k, r, &data) {
        Ok(v) => v,
        Err(e) => fail!("one-shot encode failed: {e:?}"),
    };
    ensure!(rec.len() == r, "one-shot encode produced {} shards, expected {r}", rec.len());
    for (j, s) in rec.iter().enumerate() {
        ensure!(s.len() == b, "recovery shard {j} has length {} != {b}", s.len());
    }
    let given = rd.recv.arrival(k, r);
    let orig: Vec<(usize, &Vec<u8>)> = given.iter().filter(|g| !g.rec).map(|g| (g.idx, &data[g.idx])).collect();
    let recv: Vec<(usize, &Vec<u8>)> = given.iter().filter(|g| g.rec).map(|g| (g.idx, &rec[g.idx])).collect();
    let restored = match reed_solomon_simd::decode(k, r, orig, recv) {
        Ok(v) => v,
        Err(e) => fail!("one-shot decode with {} >= k shards failed: {e:?}", given.len()),
    };
    let restored: BTreeMap<usize, Vec<u8>> = restored.into_iter().collect();
    check_restored(k, b, &given, &data, &restored)?;
    if classify_round(rd, &given, st) {
        st.nontrivial_case("oneshot", rd);
    }
    Ok(())
}

// ----------------------------------------------------------------------
// envelope corners at maximum loss

#[derive(Clone, Debug, Serialize, Deserialize)]
pub struct CornerCase {
    pub kind: Kind,
    pub eng: Eng,
    pub k: usize,
    pub r: usize,
    pub b: usize,
    pub pattern: u8,
    pub seed: u64,
}

fn corner_strategy(tier: Tier) -> BoxedStrategy<CornerCase> {
    gen::kind_any()
        .prop_flat_map(move |kind| {
            let corners = gen::envelope_corners(kind);
            let sizes: Vec<usize> = tier.pick(vec![2], vec![2, 2, 64, 66]);
            (
                0..corners.len(),
                gen::engine_for(kind),
                0..sizes.len(),
                prop_oneof![Just(1u8), Just(0u8), Just(3u8), Just(5u8)],
                any::<u64>(),
            )
                .prop_map(move |(ci, eng, si, pattern, seed)| CornerCase {
                    kind,
                    eng,
                    k: corners[ci].0,
                    r: corners[ci].1,
                    b: sizes[si],
                    pattern,
                    seed,
                })
        })
        .boxed()
}

pub fn check_corner(c: &CornerCase, st: &mut Stats) -> CheckResult {
    // Naive is ~20x slower on 65536 positions; keep the case but at the smallest size
    let b = if c.eng == Eng::Naive || c.eng == Eng::Neon { 2 } else { c.b };
    let rd = Round {
        kind: c.kind,
        eng: c.eng,
        cfg: Cfg { k: c.k, r: c.r, b },
        data: DataSpec { mode: 0, seed: c.seed },
        recv: RecvSpec { n_mode: 0, pattern: c.pattern, order: 2, seed: c.seed },
    };
    check_round(&rd, st)?;
    st.classf("corner", format!("{}:{}", c.k, c.r));
    Ok(())
}
