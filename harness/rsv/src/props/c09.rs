//! C09 - the default codec is the rate fixed by the selection rule; API layers agree.

use crate::engines::*;
use crate::gen::{self, Cfg, DataSpec, RecvSpec};
use crate::history::RawCfg;
use crate::props::c01::check_restored;
use crate::props::PropDef;
use crate::refmodel::rule_high;
use crate::runner::{CheckResult, GenPart, PartDyn, Stats, Tier};
use crate::{ensure, fail};
use proptest::prelude::*;
use serde::{Deserialize, Serialize};
use std::collections::BTreeMap;

pub fn def() -> PropDef {
    PropDef {
        id: "C09",
        rule: "generated supported (k,r) of all classes (plus a share where only one dedicated rate supports the pair) x engine x data x received set: DefaultRateEncoder<E> bytes == bytes of the dedicated high/low encoder chosen by the rule as worded in the property; DefaultRateDecoder<E> restores from the dedicated encoder's shards and the dedicated decoder from the default encoder's; ReedSolomonEncoder/Decoder and one-shot encode/decode == DefaultRate codec with any engine; histories of resets on one default-rate object crossing the rate boundary (2..7 configurations: independent draws, configurations derived from the previous one - values permuted or moved to a neighbour - and returns to exactly an earlier configuration of the same history), each round compared with the dedicated codec of the rule. non-trivial (measured): only one rate supports the pair, or both do and their recovery bytes differ for this input; distinct by full case",
        assumptions: &["for equal next_power_of_two both rates provably produce the same bytes (single chunk), so the tie-break is unobservable there; such cases are counted as trivial"],
        parts,
    }
}

#[derive(Clone, Debug, PartialEq, Eq, Hash, Serialize, Deserialize)]
pub struct RuleCase {
    pub eng: Eng,
    pub cfg: Cfg,
    pub data: DataSpec,
    pub recv: RecvSpec,
}

fn one_rate_only() -> BoxedStrategy<Cfg> {
    // one count above 32768: only the "correct" rate supports it
    (32769usize..=65535, any::<u16>(), any::<bool>())
        .prop_map(|(big, sraw, flip)| {
            let room = 65536 - big;
            // other count: next_power_of_two(other) + big <= 65536
            let maxo = if room == 0 { 1 } else { 1usize << (usize::BITS - 1 - room.leading_zeros()) };
            let other = 1 + gen::idx_map(sraw, maxo - 1).min(maxo - 1);
            if flip {
                Cfg { k: big, r: other, b: 2 }
            } else {
                Cfg { k: other, r: big, b: 2 }
            }
        })
        .boxed()
}

fn strategy(t: Tier) -> BoxedStrategy<RuleCase> {
    let cfgs = prop_oneof![
        30 => gen::cfg(Kind::Default, t.pick(1000, 2500)).prop_map(|(c, _)| c),
        1 => one_rate_only(),
        // few shards of 64 KiB .. 4 MiB (size-dependent rate decisions)
        1 => gen::long_shard_cfg(),
    ];
    (gen::engine(), cfgs, gen::data_spec(), gen::recv_spec())
        .prop_map(|(eng, cfg, data, recv)| {
            // the slow engines do not get the 65536-position configurations
            let eng = if (cfg.k + cfg.r > 30000 || cfg.b > (200 << 10)) && (eng == Eng::Naive || eng == Eng::Neon) { Eng::NoSimd } else { eng };
            RuleCase { eng, cfg, data, recv }
        })
        .boxed()
}

fn parts() -> Vec<Box<dyn PartDyn>> {
    vec![
        Box::new(GenPart { name: "rule", quick: 8_000, thorough: 200_000, shrink_iters: 500, strat: strategy, check: check_rule }),
        Box::new(GenPart { name: "reset_history", quick: 4_000, thorough: 100_000, shrink_iters: 800, strat: hist_strategy, check: check_hist }),
    ]
}

fn check_rule(c: &RuleCase, st: &mut Stats) -> CheckResult {
    let Cfg { k, r, b } = c.cfg;
    let high = rule_high(k, r);
    let ded = if high { Kind::High } else { Kind::Low };
    let other = if high { Kind::Low } else { Kind::High };
    ensure!(ded.env(k, r), "harness: the rule selects a rate that does not support ({k},{r})");
    let data = c.data.expand(k, b);
    let given = c.recv.arrival(k, r);

    let rec_def = encode_all(Kind::Default, c.eng, k, r, b, &data).map_err(|e| format!("default-rate encode failed: {e:?}"))?;
    let rec_ded = encode_all(ded, c.eng, k, r, b, &data).map_err(|e| format!("{} encode failed: {e:?}", ded.name()))?;
    if rec_def != rec_ded {
        let j = rec_def.iter().zip(&rec_ded).position(|(x, y)| x != y).unwrap();
        fail!(
            "DefaultRateEncoder<{}>({k},{r},{b}) differs from {}RateEncoder (the rate the rule selects) in recovery shard {j}",
            c.eng.name(), ded.name()
        );
    }
    // cross decoding
    let res_def = decode_all(Kind::Default, c.eng, k, r, b, &given, &data, &rec_ded).map_err(|e| format!("default-rate decode of {} shards failed: {e:?}", ded.name()))?;
    check_restored(k, b, &given, &data, &res_def).map_err(|f| format!("default-rate decoder on {}-rate shards: {}", ded.name(), f.msg))?;
    let res_ded = decode_all(ded, c.eng, k, r, b, &given, &data, &rec_def).map_err(|e| format!("{} decode of default-rate shards failed: {e:?}", ded.name()))?;
    ensure!(res_ded == res_def, "dedicated {} decoder and default-rate decoder restore different shards", ded.name());

    // API layers: ReedSolomon* and one-shot == DefaultRate<E> for this (any) engine
    let rec_rs = encode_all(Kind::Rs, Eng::Default, k, r, b, &data).map_err(|e| format!("ReedSolomonEncoder failed: {e:?}"))?;
    ensure!(rec_rs == rec_def, "ReedSolomonEncoder bytes differ from DefaultRateEncoder<{}>", c.eng.name());
    let rec_os = reed_solomon_simd::encode(k, r, &data).map_err(|e| format!("one-shot encode failed: {e:?}"))?;
    ensure!(rec_os == rec_def, "one-shot encode bytes differ from DefaultRateEncoder<{}>", c.eng.name());
    let res_rs = decode_all(Kind::Rs, Eng::Default, k, r, b, &given, &data, &rec_def).map_err(|e| format!("ReedSolomonDecoder failed: {e:?}"))?;
    ensure!(res_rs == res_def, "ReedSolomonDecoder restores different shards than DefaultRateDecoder<{}>", c.eng.name());
    let o: Vec<(usize, &Vec<u8>)> = given.iter().filter(|g| !g.rec).map(|g| (g.idx, &data[g.idx])).collect();
    let rv: Vec<(usize, &Vec<u8>)> = given.iter().filter(|g| g.rec).map(|g| (g.idx, &rec_def[g.idx])).collect();
    let res_os: BTreeMap<usize, Vec<u8>> = reed_solomon_simd::decode(k, r, o, rv).map_err(|e| format!("one-shot decode failed: {e:?}"))?.into_iter().collect();
    ensure!(res_os == res_def, "one-shot decode restores different shards than DefaultRateDecoder<{}>", c.eng.name());

    // is the choice observable for this input?
    let observable = if other.env(k, r) {
        let rec_other = encode_all(other, c.eng, k, r, b, &data).map_err(|e| format!("{} encode failed: {e:?}", other.name()))?;
        rec_other != rec_def
    } else {
        true
    };
    st.classf("rule", if high { "high" } else { "low" });
    st.classf("tie", k.next_power_of_two() == r.next_power_of_two());
    st.classf("other_rate_supported", other.env(k, r));
    st.classf("observable", observable);
    st.classf("engine", c.eng.name());
    if observable {
        st.nontrivial_case("rule", c);
    }
    Ok(())
}

// ----------------------------------------------------------------------
// reset histories on one default-rate object

#[derive(Clone, Debug, PartialEq, Eq, Hash, Serialize, Deserialize)]
pub struct HistCase {
    pub eng: Eng,
    pub rs: bool,
    pub dec: bool,
    pub cfgs: Vec<RawCfg>,
    pub seed: u64,
}

fn hist_strategy(t: Tier) -> BoxedStrategy<HistCase> {
    // mostly cheap configurations both rates support, plus a share only ONE rate supports
    // (a count above 32768): a reset that crosses between such configurations must still succeed
    let one = one_rate_only().prop_map(|c| {
        let (bounded, other) = if c.k > c.r { (c.r, c.k) } else { (c.k, c.r) };
        RawCfg { bounded, other, flip: c.k > c.r, size: 2 }
    });
    let cfg = prop_oneof![12 => crate::history::raw_cfg(t.pick(300, 1000)), 1 => one];
    (gen::engine(), prop::bool::weighted(0.25), any::<bool>(), prop::collection::vec(cfg, 2..=7), any::<u64>())
        .prop_map(|(eng, rs, dec, cfgs, seed)| {
            let huge = cfgs.iter().any(|c| c.bounded + c.other > 30000);
            let eng = if rs { Eng::Default } else if huge && (eng == Eng::Naive || eng == Eng::Neon) { Eng::NoSimd } else { eng };
            HistCase { eng, rs, dec: dec && !huge, cfgs, seed }
        })
        .boxed()
}

fn check_hist(c: &HistCase, st: &mut Stats) -> CheckResult {
    let kind = if c.rs { Kind::Rs } else { Kind::Default };
    let first = c.cfgs[0].orient(kind);
    let mut enc = make_enc(kind, c.eng, first.k, first.r, first.b, None).map_err(|e| format!("new failed: {e:?}"))?;
    let mut dec = make_dec(kind, c.eng, first.k, first.r, first.b, None).map_err(|e| format!("new failed: {e:?}"))?;
    let mut prev_high: Option<bool> = None;
    let mut switches = 0;
    let mut prev: Option<Cfg> = None;
    let mut past: Vec<Cfg> = Vec::new();
    let mut returns = 0;
    for (i, rc) in c.cfgs.iter().enumerate() {
        // besides independent draws: a configuration derived from the previous one (its values permuted or
        // one of them moved to a neighbour), or a RETURN to exactly an earlier configuration of this history
        let sel = (c.seed >> (5 * i)) as u8 % 32;
        let Cfg { k, r, b } = match prev {
            Some(p) if sel < 10 && p.k + p.r < 4000 => crate::history::derived_cfg(kind, p, sel % 14),
            Some(_) if sel < 18 && past.len() >= 2 => {
                returns += 1;
                past[past.len() - 2 - (sel as usize % (past.len() - 1))]
            }
            _ => rc.orient(kind),
        };
        prev = Some(Cfg { k, r, b });
        past.push(Cfg { k, r, b });
        if i > 0 {
            enc.reset(k, r, b).map_err(|e| format!("encoder reset({k},{r},{b}) failed: {e:?}"))?;
            dec.reset(k, r, b).map_err(|e| format!("decoder reset({k},{r},{b}) failed: {e:?}"))?;
        }
        let high = rule_high(k, r);
        if prev_high.is_some() && prev_high != Some(high) {
            switches += 1;
        }
        prev_high = Some(high);
        let ded = if high { Kind::High } else { Kind::Low };
        let data = DataSpec { mode: 0, seed: c.seed ^ i as u64 }.expand(k, b);
        let rec = encode_on(&mut *enc, &data).map_err(|e| format!("encode after reset {i} failed: {e:?}"))?;
        let want = encode_all(ded, c.eng, k, r, b, &data).map_err(|e| format!("dedicated encode failed: {e:?}"))?;
        ensure!(
            rec == want,
            "after reset #{i} to ({k},{r},{b}) the default-rate encoder does not produce the bytes of the {} codec the rule selects",
            ded.name()
        );
        if c.dec {
            let given = RecvSpec { n_mode: 0, pattern: 1, order: 2, seed: c.seed ^ i as u64 }.arrival(k, r);
            let got = decode_on(&mut *dec, &given, &data, &rec).map_err(|e| format!("decode after reset {i} failed: {e:?}"))?;
            let want = decode_all(ded, c.eng, k, r, b, &given, &data, &rec).map_err(|e| format!("dedicated decode failed: {e:?}"))?;
            ensure!(got == want, "after reset #{i} to ({k},{r},{b}) the default-rate decoder restores differently from the {} decoder", ded.name());
            check_restored(k, b, &given, &data, &got)?;
        }
    }
    st.classf("switches", switches);
    st.classf("returns_to_an_earlier_configuration", returns);
    st.classf("rs", c.rs);
    st.classf("one_rate_only_cfgs", c.cfgs.iter().filter(|c| c.bounded + c.other > 30000).count());
    if switches > 0 {
        st.nontrivial_case("reset_history", c);
    }
    Ok(())
}
