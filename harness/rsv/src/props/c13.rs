//! C13 - encoding is linear over GF(2^16).

use crate::engines::*;
use crate::gen::{self, Cfg, DataSpec};
use crate::props::PropDef;
use crate::refmodel::{field, slot_get, slot_set, slots};
use crate::runner::{CheckResult, GenPart, PartDyn, Stats, Tier};
use crate::{ensure, fail};
use proptest::prelude::*;
use serde::{Deserialize, Serialize};

pub fn def() -> PropDef {
    PropDef {
        id: "C13",
        rule: "generated: codec family x engine x configuration class x even shard size x two data sets A, B x field constant c (incl. 0, 1, 0xFFFF, single-bit symbols). half of the cases on one reused encoder object. oracle (metamorphic, no reference encoder): enc(A xor B) == enc(A) xor enc(B); enc(0) == 0; enc(c*A) == c*enc(A), the slot-wise product computed by the independent field arithmetic through the documented byte placement. non-trivial: A, B non-zero, A != B, c not in {0,1}; distinct by full case",
        assumptions: &[],
        parts,
    }
}

#[derive(Clone, Debug, PartialEq, Eq, Hash, Serialize, Deserialize)]
pub struct LinCase {
    pub kind: Kind,
    pub eng: Eng,
    pub cfg: Cfg,
    pub a: DataSpec,
    pub b: DataSpec,
    pub c: u16,
}

fn strategy(t: Tier) -> BoxedStrategy<LinCase> {
    gen::kind_any()
        .prop_flat_map(move |kind| {
            let cs = prop_oneof![
                1 => Just(0u16), 1 => Just(1u16), 1 => Just(0xFFFFu16), 1 => Just(2u16),
                2 => (0u32..16).prop_map(|i| 1u16 << i),
                10 => any::<u16>(),
            ];
            (gen::cfg(kind, t.pick(1000, 2000)), gen::engine_for(kind), gen::data_spec(), gen::data_spec(), cs)
                .prop_map(move |((cfg, _), eng, a, b, c)| LinCase { kind, eng, cfg, a, b, c })
        })
        .boxed()
}

fn parts() -> Vec<Box<dyn PartDyn>> {
    vec![Box::new(GenPart { name: "linearity", quick: 40_000, thorough: 400_000, shrink_iters: 600, strat: strategy, check })]
}

fn xor_sets(a: &[Vec<u8>], b: &[Vec<u8>]) -> Vec<Vec<u8>> {
    a.iter().zip(b).map(|(x, y)| x.iter().zip(y).map(|(p, q)| p ^ q).collect()).collect()
}

fn scale_sets(a: &[Vec<u8>], c: u16) -> Vec<Vec<u8>> {
    let f = field();
    a.iter()
        .map(|sh| {
            let mut out = vec![0u8; sh.len()];
            for s in 0..slots(sh.len()) {
                slot_set(&mut out, s, f.mul(slot_get(sh, s), c));
            }
            out
        })
        .collect()
}

fn check(c: &LinCase, st: &mut Stats) -> CheckResult {
    let Cfg { k, r, b } = c.cfg;
    let a = c.a.expand(k, b);
    let bb = c.b.expand(k, b);
    // half of the cases encode everything on ONE reused encoder (parity updates in real use do that)
    let reuse = c.a.seed & 1 == 1;
    let mut shared = if reuse { Some(make_enc(c.kind, c.eng, k, r, b, None).map_err(|e| format!("encoder construction failed: {e:?}"))?) } else { None };
    let mut enc = |d: &[Vec<u8>]| match shared.as_mut() {
        Some(e) => encode_on(&mut **e, d).map_err(|e| format!("encode on a reused encoder failed: {e:?}")),
        None => encode_all(c.kind, c.eng, k, r, b, d).map_err(|e| format!("encode failed: {e:?}")),
    };
    let ea = enc(&a)?;
    let eb = enc(&bb)?;
    let eab = enc(&xor_sets(&a, &bb))?;
    let want = xor_sets(&ea, &eb);
    if eab != want {
        let j = eab.iter().zip(&want).position(|(x, y)| x != y).unwrap();
        fail!("enc(A xor B) != enc(A) xor enc(B) in recovery shard {j} (k={k} r={r} b={b} {} {})", c.kind.name(), c.eng.name());
    }
    let zero = vec![vec![0u8; b]; k];
    let ez = enc(&zero)?;
    ensure!(ez.iter().all(|s| s.iter().all(|&x| x == 0)), "all-zero originals give a non-zero recovery shard (k={k} r={r} b={b})");
    let eca = enc(&scale_sets(&a, c.c))?;
    let want = scale_sets(&ea, c.c);
    if eca != want {
        let j = eca.iter().zip(&want).position(|(x, y)| x != y).unwrap();
        fail!("enc(c*A) != c*enc(A) for c={:#06x} in recovery shard {j} (k={k} r={r} b={b} {} {})", c.c, c.kind.name(), c.eng.name());
    }
    st.classf("kind", c.kind.name());
    st.classf("engine", c.eng.name());
    st.classf("size", gen::size_class(b));
    st.classf("reused_encoder", reuse);
    let nz = |d: &[Vec<u8>]| d.iter().any(|s| s.iter().any(|&x| x != 0));
    if nz(&a) && nz(&bb) && a != bb && c.c > 1 {
        st.nontrivial_case("linearity", c);
    }
    Ok(())
}
