//! C07 - a failed call changes nothing and leaves the object usable.

use crate::engines::*;
use crate::gen::{Cfg, RecvSpec};
use crate::history::*;
use crate::props::c05::brief;
use crate::props::PropDef;
use crate::runner::{CheckResult, GenPart, PartDyn, Stats, Tier};
use crate::fail;
use proptest::prelude::*;

pub fn def() -> PropDef {
    PropDef {
        id: "C07",
        rule: "generated histories (1..14 ops, biased towards failing calls: adds with wrong length / out-of-range / duplicate index / too many, premature encode/decode, reset with unsupported counts or invalid shard size) on every family x engine, closed by a complete round; part failure_streaks: streaks of up to 300 steps in which every reset is preceded by a failing add and/or a failing reset (see C05 reset_streaks), then a real round compared call by call with an object that never saw any of it; part big_twin: the same on few, long shards (working spaces up to 256 MiB quick / 2 GiB thorough); oracle: a twin object receives exactly the calls that returned Ok on the subject (i.e. the failing calls were never made on it); every later result - Ok/Err value and output bytes - must be identical on both, and no call may unwind. non-trivial: >=1 failed call followed by >=1 successful encode/decode; distinct by full history",
        assumptions: &["both objects are built by the same constructor calls; recycling (into_parts -> new(Some(work))) is applied to both"],
        parts,
    }
}

fn strategy(t: Tier) -> BoxedStrategy<History> {
    history(
        t.pick(300, 1000),
        14,
        OpWeights { reset: 3, reset_bad: 4, recycle: 1, round: 5, partial: 3, bad_add: 6, finish: 3 },
    )
}

fn parts() -> Vec<Box<dyn PartDyn>> {
    vec![
        Box::new(GenPart { name: "twin", quick: 30_000, thorough: 250_000, shrink_iters: 1500, strat: strategy, check }),
        // the same oracle on few, long shards (working spaces 1 MiB .. 256 MiB quick / 2 GiB thorough)
        Box::new(GenPart {
            name: "failure_streaks",
            quick: 3_000,
            thorough: 60_000,
            shrink_iters: 200,
            strat: |t| {
                crate::props::c05::streak_strategy(t)
                    .prop_map(|mut c| {
                        for (i, s) in c.streaks.iter_mut().enumerate() {
                            if s.fails == 0 {
                                s.fails = 1 + ((s.seed as u8).wrapping_add(i as u8)) % 3;
                            }
                        }
                        c
                    })
                    .boxed()
            },
            check: |c, st| crate::props::c05::run_streak(c, st, "failure_streaks", false),
        }),
        Box::new(GenPart { name: "big_twin", quick: 24, thorough: 300, shrink_iters: 30, strat: |t| crate::props::c05::big_strategy_with(t, true), check: check_big }),
    ]
}

pub fn check(h: &History, st: &mut Stats) -> CheckResult {
    let dec = h.dec;
    let mut kind = h.kind;
    let mut eng = h.eng;
    let mut cur = h.init.orient(kind);
    let hseed = crate::runner::hash_of(h);

    let mk = |kind, eng, cur: Cfg| match Obj::make(dec, kind, eng, cur) {
        Ok(o) => Ok(o),
        Err(e) => Err(format!("construction with supported configuration {cur:?} failed: {e:?}")),
    };
    let mut subject = mk(kind, eng, cur)?;
    let mut twin = mk(kind, eng, cur)?;
    let mut acc = Accepted::default();
    let mut past: Vec<Cfg> = Vec::new();
    let mut failed_calls = 0u32;
    let mut ok_finish_after_failure = 0u32;
    let mut kinds_of_failure = std::collections::BTreeSet::new();

    // closing round so that every history ends with a compared encode/decode
    let closing = Op::Round { seed: hseed, recv: RecvSpec { n_mode: 0, pattern: 1, order: 2, seed: hseed }, read: true };
    let ops: Vec<&Op> = h.ops.iter().chain(std::iter::once(&closing)).collect();

    for (opi, op) in ops.iter().enumerate() {
        if let Op::Recycle { kind: k2, eng: e2, cfg, same } = op {
            if kind == Kind::Rs {
                continue;
            }
            let c2 = recycle_cfg(*k2, cfg, *same, cur);
            let rec = |o: Obj| match crate::runner::no_panic(|| o.recycle(*k2, *e2, c2)) {
                Ok(Ok(o)) => Ok(o),
                Ok(Err(e)) => Err(format!("op {opi}: new(Some(work)) with supported configuration {c2:?} failed: {e:?}")),
                Err(p) => Err(format!("op {opi}: new(Some(work)) panicked: {p}")),
            };
            subject = rec(subject)?;
            twin = rec(twin)?;
            kind = *k2;
            eng = *e2;
            if c2 != cur {
                past.push(cur);
            }
            cur = c2;
            acc.clear();
            continue;
        }
        for call in expand(op, dec, kind, cur, &acc, &past) {
            // results are always read so that they can be compared
            let call = match call {
                Call::Finish { .. } => Call::Finish { read: true },
                c => c,
            };
            let out = match subject.apply(&call) {
                Ok(o) => o,
                Err(p) => fail!(
                    "op {opi} ({}): {} after {failed_calls} failed call(s): {p}",
                    op_label(op), brief(&call)
                ),
            };
            if !out.is_ok() {
                // the twin never sees a call that failed
                failed_calls += 1;
                kinds_of_failure.insert(match &call {
                    Call::Reset(..) => "reset",
                    Call::AddO(..) | Call::AddR(..) => "add",
                    Call::Finish { .. } => "finish",
                });
                continue;
            }
            let out_t = match twin.apply(&call) {
                Ok(o) => o,
                Err(p) => fail!("op {opi}: twin object: {} {p}", brief(&call)),
            };
            if out_t != out {
                fail!(
                    "op {opi} ({}): {} gives {} on the object that saw {failed_calls} failed call(s) before, but {} on a twin that never saw them (family {}, engine {}, cfg {cur:?})",
                    op_label(op), brief(&call), out.brief(), out_t.brief(), kind.name(), eng.name()
                );
            }
            match &call {
                Call::Reset(k, r, b) => {
                    let new = Cfg { k: *k, r: *r, b: *b };
                    if new != cur {
                        past.push(cur);
                    }
                    cur = new;
                    acc.clear();
                }
                Call::AddO(..) | Call::AddR(..) => acc.note(dec, &call),
                Call::Finish { .. } => {
                    acc.clear();
                    if failed_calls > 0 {
                        ok_finish_after_failure += 1;
                    }
                }
            }
        }
    }
    st.classf("subject", if dec { "decoder" } else { "encoder" });
    st.classf("kind", h.kind.name());
    st.classf("failed_calls", failed_calls.min(8));
    for k in kinds_of_failure {
        st.classf("failure", k);
    }
    if failed_calls > 0 && ok_finish_after_failure > 0 {
        st.nontrivial_key(hseed);
    }
    Ok(())
}

fn check_big(h: &History, st: &mut Stats) -> CheckResult {
    crate::runner::with_memory_budget(crate::props::c05::biggest_working_set(h) * 4 + (1 << 20), || check(h, st))
}
