//! C12 - result accessors expose exactly the produced shards; drop starts a new round.

use crate::engines::*;
use crate::gen::{self, Cfg, DataSpec, RecvSpec};
use crate::props::PropDef;
use crate::runner::{no_panic, CheckResult, GenPart, PartDyn, Stats, Tier};
use crate::{ensure, fail};
use proptest::prelude::*;
use serde::{Deserialize, Serialize};

pub fn def() -> PropDef {
    PropDef {
        id: "C12",
        rule: "generated: codec family x engine x configuration x received-set spec x index probes {0, count-1, count, count+1, 2^32, usize::MAX-1, usize::MAX, random} x 1..20 consecutive rounds on one encoder and one decoder without explicit reset (new data and a new received set each round). oracle: recovery(i) is Some of the configured length iff i < recovery_count, the iterator yields exactly recovery(0..r) in order and then None on 5 further calls; restored_original(i) is Some iff i < original_count and not given (never when all were given), the iterator yields exactly those pairs ascending, then None 5 times; restored bytes equal the encoded originals; every round after a dropped result accepts all adds and is right again. part iter_protocol: generated sequences of std Iterator operations (next, nth, skip, step_by, take, count, last, fold, size_hint) on both result iterators must agree with a model iterator over exactly the expected items; and each of 22 consuming methods (for_each, count, last, fold, collect, extend, max, min, partition, all, position, reduce, and by-value adaptors map / enumerate / skip / step_by / take / chain / fuse / peekable / filter / zip) called DIRECTLY on a new iterator of the same result after a prefix of those operations (a method the iterator type overrides itself only runs when it is not reached through by_ref()); and two iterators of the same result advanced alternately with index accessors called in between; if the iterator types implement DoubleEndedIterator (they do not in the unchanged crate), next() mixed with next_back() must yield every expected item exactly once. non-trivial: sparse received set with k >= 16, or a probe >= 2^32, or >= 3 rounds; distinct by full case",
        assumptions: &[],
        parts,
    }
}

#[derive(Clone, Debug, PartialEq, Eq, Hash, Serialize, Deserialize)]
pub struct AccCase {
    pub kind: Kind,
    pub eng: Eng,
    pub cfg: Cfg,
    pub rounds: u8,
    pub recv: RecvSpec,
    pub probes: Vec<usize>,
    pub seed: u64,
}

fn strategy(t: Tier) -> BoxedStrategy<AccCase> {
    gen::kind_any()
        .prop_flat_map(move |kind| {
            let probe = prop_oneof![
                3 => 0usize..=70,
                1 => prop_oneof![Just(1usize << 32), Just((1usize << 32) + 1), Just(usize::MAX - 1), Just(usize::MAX), Just(usize::MAX / 2), Just(65535usize), Just(65536usize)],
                1 => any::<usize>(),
            ];
            (gen::cfg(kind, t.pick(1000, 1500)), gen::engine_for(kind), 1u8..=20, gen::recv_spec(), prop::collection::vec(probe, 0..6), any::<u64>()).prop_map(
                move |((cfg, _), eng, rounds, recv, probes, seed)| {
                    let rounds = if cfg.k + cfg.r > 200 { rounds.min(3) } else { rounds };
                    AccCase { kind, eng, cfg, rounds, recv, probes, seed }
                },
            )
        })
        .boxed()
}

fn parts() -> Vec<Box<dyn PartDyn>> {
    vec![
        Box::new(GenPart { name: "accessors", quick: 15_000, thorough: 300_000, shrink_iters: 600, strat: strategy, check }),
        Box::new(GenPart { name: "iter_protocol", quick: 20_000, thorough: 400_000, shrink_iters: 600, strat: iter_strategy, check: check_iter }),
    ]
}

// ----------------------------------------------------------------------
// the result iterators driven through the std Iterator interface (nth, skip, step_by, take, count,
// last, fold ... after any number of next calls) against a model iterator over the expected items

#[derive(Clone, Debug, PartialEq, Eq, Hash, Serialize, Deserialize)]
pub enum IterOp {
    Next,
    Nth(u8),
    SkipNext(u8),
    StepByTake(u8, u8),
    TakeCount(u8),
    SizeHintThenNext,
    Count,
    Last,
    Fold,
}

#[derive(Clone, Debug, PartialEq, Eq, Hash, Serialize, Deserialize)]
pub struct IterCase {
    pub kind: Kind,
    pub eng: Eng,
    pub cfg: Cfg,
    pub recv: RecvSpec,
    pub ops: Vec<IterOp>,
    pub seed: u64,
}

fn iter_strategy(_t: Tier) -> BoxedStrategy<IterCase> {
    let op = prop_oneof![
        6 => Just(IterOp::Next),
        3 => (0u8..12).prop_map(IterOp::Nth),
        2 => (0u8..6).prop_map(IterOp::SkipNext),
        2 => (1u8..5, 1u8..4).prop_map(|(a, b)| IterOp::StepByTake(a, b)),
        2 => (0u8..6).prop_map(IterOp::TakeCount),
        1 => Just(IterOp::SizeHintThenNext),
        1 => Just(IterOp::Count),
        1 => Just(IterOp::Last),
        1 => Just(IterOp::Fold),
    ];
    gen::kind_any()
        .prop_flat_map(move |kind| {
            (1usize..=40, 1usize..=40, gen::shard_size_small(), gen::engine_for(kind), gen::recv_spec(), prop::collection::vec(op.clone(), 1..=12), any::<u64>())
                .prop_map(move |(k, r, b, eng, recv, ops, seed)| IterCase { kind, eng, cfg: Cfg { k, r, b }, recv, ops, seed })
        })
        .boxed()
}

/// applies the ops to `it` and to the model; every observable result must agree
fn drive<T: PartialEq + std::fmt::Debug + Clone, I: Iterator<Item = T>, M: Iterator<Item = T>>(what: &str, ops: &[IterOp], it: &mut I, model: &mut M) -> CheckResult {
    drive_ops(what, ops, it, model)?;
    // and then None forever
    for extra in 0..4 {
        let (a, b) = (it.next(), model.next());
        if a != b {
            fail!("{what}: after the operations, next() #{extra} gives {a:?}, expected {b:?}");
        }
    }
    Ok(())
}

fn drive_ops<T: PartialEq + std::fmt::Debug + Clone, I: Iterator<Item = T>, M: Iterator<Item = T>>(what: &str, ops: &[IterOp], it: &mut I, model: &mut M) -> CheckResult {
    fn eq<T: PartialEq + std::fmt::Debug>(what: &str, i: usize, op: &IterOp, a: T, b: T) -> CheckResult {
        if a != b {
            fail!("{what}: operation #{i} {op:?} gives {a:?}, an iterator over exactly the expected items gives {b:?}");
        }
        Ok(())
    }
    for (i, op) in ops.iter().enumerate() {
        match op {
            IterOp::Next => eq(what, i, op, it.next(), model.next())?,
            IterOp::Nth(n) => eq(what, i, op, it.nth(*n as usize), model.nth(*n as usize))?,
            IterOp::SkipNext(n) => eq(what, i, op, it.by_ref().skip(*n as usize).next(), model.by_ref().skip(*n as usize).next())?,
            IterOp::StepByTake(a, b) => eq(
                what, i, op,
                it.by_ref().step_by(*a as usize).take(*b as usize).collect::<Vec<_>>(),
                model.by_ref().step_by(*a as usize).take(*b as usize).collect::<Vec<_>>(),
            )?,
            IterOp::TakeCount(n) => eq(what, i, op, it.by_ref().take(*n as usize).count(), model.by_ref().take(*n as usize).count())?,
            IterOp::SizeHintThenNext => {
                let (lo, hi) = it.size_hint();
                let remaining = model.by_ref().count();
                // the model is consumed by counting: drain the subject the same way and compare
                let got = it.by_ref().count();
                if lo > got || hi.map(|h| h < got).unwrap_or(false) {
                    fail!("{what}: operation #{i}: size_hint ({lo}, {hi:?}) but {got} items followed");
                }
                eq(what, i, op, got, remaining)?;
            }
            IterOp::Count => eq(what, i, op, it.by_ref().count(), model.by_ref().count())?,
            IterOp::Last => eq(what, i, op, it.by_ref().last(), model.by_ref().last())?,
            IterOp::Fold => eq(what, i, op, it.by_ref().fold(0usize, |a, _| a + 1), model.by_ref().fold(0usize, |a, _| a + 1))?,
        }
    }
    Ok(())
}

// Double-ended use, if (and only if) the concrete iterator type implements DoubleEndedIterator: the unchanged crate
// does not, a refactor may add it - and then `rev()` / `next_back()` mixed with `next()` must yield each expected item
// exactly once. Resolved by autoref specialisation at the (non-generic) call site, so the harness compiles either way.
pub struct BackProbe<'x, I>(pub &'x mut I);
pub trait BackYes<T> {
    fn try_next_back(&mut self) -> Option<Option<T>>;
}
impl<I: DoubleEndedIterator> BackYes<I::Item> for BackProbe<'_, I> {
    fn try_next_back(&mut self) -> Option<Option<I::Item>> {
        Some(self.0.next_back())
    }
}
pub trait BackNo<T> {
    fn try_next_back(&mut self) -> Option<Option<T>>;
}
impl<I: Iterator> BackNo<I::Item> for &mut BackProbe<'_, I> {
    fn try_next_back(&mut self) -> Option<Option<I::Item>> {
        None
    }
}

/// mixes next() and next_back() (pattern from the seed) on a concrete iterator expression and compares with the model
macro_rules! back_and_forth {
    ($what:expr, $it:expr, $model:expr, $seed:expr) => {{
        let mut it = $it;
        let mut model: std::collections::VecDeque<_> = $model.collect();
        let mut res: CheckResult = Ok(());
        let mut supported = false;
        for step in 0..model.len() + 3 {
            let from_back = ($seed >> (step % 64)) & 1 == 1;
            if from_back {
                #[allow(unused_imports)]
                use crate::props::c12::{BackNo, BackYes};
                match (&mut BackProbe(&mut it)).try_next_back() {
                    None => break, // not a DoubleEndedIterator
                    Some(got) => {
                        supported = true;
                        let want = model.pop_back();
                        if got != want {
                            res = Err(crate::runner::Fail { sig: None, msg: format!("{}: next_back() at step {step} (mixed with next()) gives {got:?}, expected {want:?}", $what) });
                            break;
                        }
                    }
                }
            } else {
                let (got, want) = (it.next(), model.pop_front());
                if got != want {
                    res = Err(crate::runner::Fail { sig: None, msg: format!("{}: next() at step {step} (mixed with next_back()) gives {got:?}, expected {want:?}", $what) });
                    break;
                }
            }
        }
        (res, supported)
    }};
}

pub const TERMINALS: usize = 22;

/// a CONSUMING std method called directly on the (possibly partly consumed) iterator - not through `by_ref()`,
/// whose `&mut I` forwards only next / nth / size_hint, so that a method the iterator type overrides itself
/// (for_each, fold, count, last, ...) is what runs. Both sides are reduced to the list of items the method saw
/// or produced.
fn terminal<T: Ord + Clone + std::fmt::Debug, I: Iterator<Item = T>>(t: usize, it: I) -> (&'static str, Vec<T>, usize) {
    let mut seen: Vec<T> = Vec::new();
    let mut n = 0usize;
    let name = match t {
        0 => {
            it.for_each(|x| seen.push(x));
            "for_each"
        }
        1 => {
            n = it.count();
            "count"
        }
        2 => {
            seen.extend(it.last());
            "last"
        }
        3 => {
            seen = it.fold(Vec::new(), |mut a, x| {
                a.push(x);
                a
            });
            "fold"
        }
        4 => {
            seen = it.collect();
            "collect::<Vec>"
        }
        5 => {
            let mut set = std::collections::BTreeSet::new();
            set.extend(it);
            seen = set.into_iter().collect();
            "BTreeSet::extend"
        }
        6 => {
            seen.extend(it.max());
            "max"
        }
        7 => {
            seen.extend(it.min());
            "min"
        }
        8 => {
            let (a, b): (Vec<T>, Vec<T>) = it.partition(|_| true);
            n = b.len();
            seen = a;
            "partition"
        }
        9 => {
            let mut it = it;
            n = it.all(|x| {
                seen.push(x);
                true
            }) as usize;
            "all"
        }
        10 => {
            let mut it = it;
            n = it.position(|_| false).map_or(usize::MAX, |p| p);
            "position"
        }
        11 => {
            it.map(|x| x).for_each(|x| seen.push(x));
            "map.for_each"
        }
        12 => {
            seen = it.enumerate().map(|(i, x)| {
                n += i;
                x
            }).collect();
            "enumerate.collect"
        }
        13 => {
            seen = it.skip(2).collect();
            "skip(2).collect"
        }
        14 => {
            seen = it.step_by(3).collect();
            "step_by(3).collect"
        }
        15 => {
            it.take(3).for_each(|x| seen.push(x));
            "take(3).for_each"
        }
        16 => {
            seen = it.chain(std::iter::empty()).collect();
            "chain.collect"
        }
        17 => {
            n = it.fuse().count();
            "fuse.count"
        }
        18 => {
            let mut p = it.peekable();
            seen.extend(p.peek().cloned());
            seen.extend(p);
            "peekable"
        }
        19 => {
            seen = it.filter(|_| true).collect();
            "filter.collect"
        }
        20 => {
            seen.extend(it.reduce(|a, b| a.max(b)));
            "reduce"
        }
        _ => {
            seen = it.zip(0..).map(|(x, _)| x).collect();
            "zip.collect"
        }
    };
    (name, seen, n)
}

/// a prefix of the ops (through by_ref), then one consuming method directly on the iterator
fn drive_terminal<T: Ord + Clone + std::fmt::Debug, I: Iterator<Item = T>, M: Iterator<Item = T>>(what: &str, ops: &[IterOp], t: usize, mut it: I, mut model: M) -> CheckResult {
    drive_ops(what, ops, &mut it, &mut model)?;
    let (name, a, na) = terminal(t, it);
    let (_, b, nb) = terminal(t, model);
    if a != b || na != nb {
        fail!("{what}: after {} operation(s) {ops:?}, {name} directly on the iterator sees/gives {} item(s) (n={na}), an iterator over exactly the remaining expected items {} item(s) (n={nb})", ops.len(), a.len(), b.len());
    }
    Ok(())
}

fn check_iter(c: &IterCase, st: &mut Stats) -> CheckResult {
    let mut back_supported = false;
    let Cfg { k, r, b } = c.cfg;
    let data = DataSpec { mode: 0, seed: c.seed }.expand(k, b);
    let expected_rec = encode_all(c.kind, c.eng, k, r, b, &data).map_err(|e| format!("encode failed: {e:?}"))?;
    let mut enc = make_enc(c.kind, c.eng, k, r, b, None).map_err(|e| format!("encoder construction failed: {e:?}"))?;
    for d in &data {
        enc.add(d).map_err(|e| format!("add failed: {e:?}"))?;
    }
    let mut verdict: CheckResult = Ok(());
    no_panic(|| {
        enc.encode_with(&mut |res| {
            let mut it = res.recovery_iter();
            let mut model = expected_rec.iter().map(|v| v.as_slice());
            verdict = drive("recovery_iter", &c.ops, &mut it, &mut model);
            // every consuming method, each on a new iterator of the same result after a prefix of the operations
            for t in 0..TERMINALS {
                if verdict.is_err() {
                    break;
                }
                let cut = ((c.seed >> (t % 16)) as usize ^ t) % (c.ops.len() + 1);
                verdict = drive_terminal("recovery_iter", &c.ops[..cut], t, res.recovery_iter(), expected_rec.iter().map(|v| v.as_slice()));
            }
            if verdict.is_ok() {
                let (r2, sup) = back_and_forth!("recovery_iter", res.recovery_iter(), expected_rec.iter().map(|v| v.as_slice()), c.seed | 2);
                verdict = r2;
                back_supported |= sup;
            }
            // two iterators of the same result advanced alternately, with index probes in between: each keeps its own position
            if verdict.is_ok() {
                verdict = (|| {
                    let (mut a, mut b) = (res.recovery_iter(), res.recovery_iter());
                    let (mut ma, mut mb) = (expected_rec.iter().map(|v| v.as_slice()), expected_rec.iter().map(|v| v.as_slice()));
                    for (i, op) in c.ops.iter().enumerate() {
                        if (c.seed >> (i % 64)) & 1 == 0 {
                            drive_ops("recovery_iter (first of two interleaved iterators)", std::slice::from_ref(op), &mut a, &mut ma)?;
                        } else {
                            drive_ops("recovery_iter (second of two interleaved iterators)", std::slice::from_ref(op), &mut b, &mut mb)?;
                        }
                        let p = (c.seed as usize >> 7).wrapping_add(i * 5) % (r + 2);
                        ensure!(res.recovery(p) == expected_rec.get(p).map(|v| v.as_slice()), "recovery({p}) called between iterator operations differs from the expected shard");
                    }
                    drive("recovery_iter (first of two interleaved iterators)", &[], &mut a, &mut ma)?;
                    drive("recovery_iter (second of two interleaved iterators)", &[], &mut b, &mut mb)
                })();
            }
        })
    })
    .map_err(|p| format!("recovery iterator {p}"))?
    .map_err(|e| format!("encode failed: {e:?}"))?;
    verdict?;

    let given = c.recv.arrival(k, r);
    let mut have = vec![false; k];
    let mut dec = make_dec(c.kind, c.eng, k, r, b, None).map_err(|e| format!("decoder construction failed: {e:?}"))?;
    for g in &given {
        if g.rec {
            dec.add_recovery(g.idx, &expected_rec[g.idx]).map_err(|e| format!("add failed: {e:?}"))?;
        } else {
            have[g.idx] = true;
            dec.add_original(g.idx, &data[g.idx]).map_err(|e| format!("add failed: {e:?}"))?;
        }
    }
    let expected_res: Vec<(usize, &[u8])> = (0..k).filter(|&i| !have[i]).map(|i| (i, data[i].as_slice())).collect();
    let mut verdict: CheckResult = Ok(());
    no_panic(|| {
        dec.decode_with(&mut |res| {
            let mut it = res.restored_original_iter();
            let mut model = expected_res.iter().cloned();
            verdict = drive("restored_original_iter", &c.ops, &mut it, &mut model);
            for t in 0..TERMINALS {
                if verdict.is_err() {
                    break;
                }
                let cut = ((c.seed >> (t % 16)) as usize ^ t) % (c.ops.len() + 1);
                verdict = drive_terminal("restored_original_iter", &c.ops[..cut], t, res.restored_original_iter(), expected_res.iter().cloned());
            }
            if verdict.is_ok() {
                let (r2, sup) = back_and_forth!("restored_original_iter", res.restored_original_iter(), expected_res.iter().cloned(), c.seed | 2);
                verdict = r2;
                back_supported |= sup;
            }
            if verdict.is_ok() {
                verdict = (|| {
                    let (mut a, mut b) = (res.restored_original_iter(), res.restored_original_iter());
                    let (mut ma, mut mb) = (expected_res.iter().cloned(), expected_res.iter().cloned());
                    for (i, op) in c.ops.iter().enumerate() {
                        if (c.seed >> (i % 64)) & 1 == 0 {
                            drive_ops("restored_original_iter (first of two interleaved iterators)", std::slice::from_ref(op), &mut a, &mut ma)?;
                        } else {
                            drive_ops("restored_original_iter (second of two interleaved iterators)", std::slice::from_ref(op), &mut b, &mut mb)?;
                        }
                        let p = (c.seed as usize >> 7).wrapping_add(i * 5) % (k + 2);
                        let want = if p < k && !have[p] { Some(data[p].as_slice()) } else { None };
                        ensure!(res.restored_original(p) == want, "restored_original({p}) called between iterator operations differs from the expectation");
                    }
                    drive("restored_original_iter (first of two interleaved iterators)", &[], &mut a, &mut ma)?;
                    drive("restored_original_iter (second of two interleaved iterators)", &[], &mut b, &mut mb)
                })();
            }
        })
    })
    .map_err(|p| format!("restored iterator {p}"))?
    .map_err(|e| format!("decode failed: {e:?}"))?;
    verdict?;
    st.classf("kind", c.kind.name());
    st.classf("iterators_are_double_ended", back_supported);
    st.classf("ops", c.ops.len().min(12));
    if c.ops.iter().any(|o| !matches!(o, IterOp::Next)) && c.ops.len() >= 2 {
        st.nontrivial_case("iter_protocol", c);
    }
    Ok(())
}

fn check(c: &AccCase, st: &mut Stats) -> CheckResult {
    let Cfg { k, r, b } = c.cfg;
    let mut enc = make_enc(c.kind, c.eng, k, r, b, None).map_err(|e| format!("encoder construction failed: {e:?}"))?;
    let mut dec = make_dec(c.kind, c.eng, k, r, b, None).map_err(|e| format!("decoder construction failed: {e:?}"))?;
    let mut probes_r: Vec<usize> = vec![0, r - 1, r, r + 1];
    let mut probes_k: Vec<usize> = vec![0, k - 1, k, k + 1];
    probes_r.extend_from_slice(&c.probes);
    probes_k.extend_from_slice(&c.probes);
    let mut sparse = false;

    for round in 0..c.rounds as u64 {
        let data = DataSpec { mode: (round % 5) as u8, seed: c.seed ^ round }.expand(k, b);
        // ---------------- encoder
        for (i, d) in data.iter().enumerate() {
            let res = no_panic(|| enc.add(d)).map_err(|p| format!("round {round}: add_original_shard {p}"))?;
            if let Err(e) = res {
                fail!("round {round}: add_original_shard #{i} rejected with {e:?} although the previous result was dropped");
            }
        }
        let mut verdict: CheckResult = Ok(());
        let mut rec: Vec<Vec<u8>> = Vec::new();
        let er = no_panic(|| {
            enc.encode_with(&mut |res| {
                verdict = (|| {
                    for &p in &probes_r {
                        match res.recovery(p) {
                            Some(s) => {
                                ensure!(p < r, "recovery({p}) is Some although recovery_count is {r}");
                                ensure!(s.len() == b, "recovery({p}) has {} bytes, shard size is {b}", s.len());
                            }
                            None => ensure!(p >= r, "recovery({p}) is None although recovery_count is {r}"),
                        }
                    }
                    let mut it = res.recovery_iter();
                    for j in 0..r {
                        let Some(s) = it.next() else { fail!("recovery_iter ended after {j} of {r} shards") };
                        ensure!(Some(s) == res.recovery(j), "recovery_iter item {j} differs from recovery({j})");
                        ensure!(s.len() == b, "recovery_iter item {j} has {} bytes", s.len());
                        rec.push(s.to_vec());
                    }
                    for extra in 0..6 {
                        ensure!(it.next().is_none(), "recovery_iter yields a shard after the {r} recovery shards (call {extra} after the end)");
                    }
                    Ok(())
                })();
            })
        })
        .map_err(|p| format!("round {round}: encode / result accessors {p}"))?;
        if let Err(e) = er {
            fail!("round {round}: encode failed with {e:?} after {k} accepted shards");
        }
        verdict.map_err(|f| format!("round {round}: {}", f.msg))?;
        let fresh = encode_all(c.kind, c.eng, k, r, b, &data).map_err(|e| format!("fresh encode failed: {e:?}"))?;
        ensure!(rec == fresh, "round {round}: recovery shards differ from a fresh encoder's");

        // ---------------- decoder
        let spec = RecvSpec { seed: c.recv.seed ^ round, n_mode: if round % 4 == 3 { 3 } else { c.recv.n_mode }, ..c.recv };
        let given = spec.arrival(k, r);
        let mut have = vec![false; k];
        for g in &given {
            let res = no_panic(|| if g.rec { dec.add_recovery(g.idx, &rec[g.idx]) } else { dec.add_original(g.idx, &data[g.idx]) }).map_err(|p| format!("round {round}: add {p}"))?;
            if let Err(e) = res {
                fail!("round {round}: add of {} shard {} rejected with {e:?} although the previous result was dropped", if g.rec { "recovery" } else { "original" }, g.idx);
            }
            if !g.rec {
                have[g.idx] = true;
            }
        }
        let missing: Vec<usize> = (0..k).filter(|&i| !have[i]).collect();
        if k >= 16 && !missing.is_empty() && missing.len() < k {
            sparse = true;
        }
        let mut verdict: CheckResult = Ok(());
        let dr = no_panic(|| {
            dec.decode_with(&mut |res| {
                verdict = (|| {
                    for &p in &probes_k {
                        match res.restored_original(p) {
                            Some(s) => {
                                ensure!(p < k, "restored_original({p}) is Some although original_count is {k}");
                                ensure!(!have[p], "restored_original({p}) is Some although original {p} was given");
                                ensure!(s == &data[p][..], "restored_original({p}) differs from the encoded original");
                            }
                            None => ensure!(p >= k || have[p], "restored_original({p}) is None although original {p} was withheld"),
                        }
                    }
                    let mut it = res.restored_original_iter();
                    for &i in &missing {
                        let Some((idx, s)) = it.next() else { fail!("restored_original_iter ended before yielding missing original {i}") };
                        ensure!(idx == i, "restored_original_iter yields index {idx}, expected the next missing original {i}");
                        ensure!(s == &data[i][..], "restored_original_iter item for index {i} differs from the encoded original");
                        ensure!(Some(s) == res.restored_original(i), "iterator item and restored_original({i}) differ");
                    }
                    for extra in 0..6 {
                        if let Some((idx, _)) = it.next() {
                            fail!("restored_original_iter yields index {idx} after all {} missing originals (call {extra} after the end)", missing.len());
                        }
                    }
                    Ok(())
                })();
            })
        })
        .map_err(|p| format!("round {round}: decode / result accessors {p}"))?;
        if let Err(e) = dr {
            fail!("round {round}: decode failed with {e:?} after {} accepted shards (k={k})", given.len());
        }
        verdict.map_err(|f| format!("round {round}: {}", f.msg))?;
    }
    st.classf("kind", c.kind.name());
    st.classf("engine", c.eng.name());
    st.classf("rounds", if c.rounds >= 3 { "3+" } else { "1-2" });
    if sparse || c.rounds >= 3 || c.probes.iter().any(|&p| p >= 1 << 32) {
        st.nontrivial_case("accessors", c);
    }
    Ok(())
}
