//! C12 - result accessors expose exactly the produced shards; drop starts a new round.

use crate::engines::*;
use crate::gen::{self, Cfg, DataSpec, RecvSpec};
use crate::props::PropDef;
use crate::runner::{no_panic, CheckResult, GenPart, PartDyn, Stats, Tier};
use crate::{ensure, fail};
use proptest::prelude::*;
use serde::{Deserialize, Serialize};

pub fn def() -> PropDef {
    PropDef {
        id: "C12",
        rule: "generated: codec family x engine x configuration x received-set spec x index probes {0, count-1, count, count+1, 2^32, usize::MAX-1, usize::MAX, random} x 1..20 consecutive rounds on one encoder and one decoder without explicit reset (new data and a new received set each round). oracle: recovery(i) is Some of the configured length iff i < recovery_count, the iterator yields exactly recovery(0..r) in order and then None on 5 further calls; restored_original(i) is Some iff i < original_count and not given (never when all were given), the iterator yields exactly those pairs ascending, then None 5 times; restored bytes equal the encoded originals; every round after a dropped result accepts all adds and is right again. non-trivial: sparse received set with k >= 16, or a probe >= 2^32, or >= 3 rounds; distinct by full case",
        assumptions: &[],
        parts,
    }
}

#[derive(Clone, Debug, PartialEq, Eq, Hash, Serialize, Deserialize)]
pub struct AccCase {
    pub kind: Kind,
    pub eng: Eng,
    pub cfg: Cfg,
    pub rounds: u8,
    pub recv: RecvSpec,
    pub probes: Vec<usize>,
    pub seed: u64,
}

fn strategy(t: Tier) -> BoxedStrategy<AccCase> {
    gen::kind_any()
        .prop_flat_map(move |kind| {
            let probe = prop_oneof![
                3 => 0usize..=70,
                1 => prop_oneof![Just(1usize << 32), Just((1usize << 32) + 1), Just(usize::MAX - 1), Just(usize::MAX), Just(usize::MAX / 2), Just(65535usize), Just(65536usize)],
                1 => any::<usize>(),
            ];
            (gen::cfg(kind, t.pick(1000, 1500)), gen::engine_for(kind), 1u8..=20, gen::recv_spec(), prop::collection::vec(probe, 0..6), any::<u64>()).prop_map(
                move |((cfg, _), eng, rounds, recv, probes, seed)| {
                    let rounds = if cfg.k + cfg.r > 200 { rounds.min(3) } else { rounds };
                    AccCase { kind, eng, cfg, rounds, recv, probes, seed }
                },
            )
        })
        .boxed()
}

fn parts() -> Vec<Box<dyn PartDyn>> {
    vec![Box::new(GenPart { name: "accessors", quick: 15_000, thorough: 300_000, shrink_iters: 600, strat: strategy, check })]
}

fn check(c: &AccCase, st: &mut Stats) -> CheckResult {
    let Cfg { k, r, b } = c.cfg;
    let mut enc = make_enc(c.kind, c.eng, k, r, b, None).map_err(|e| format!("encoder construction failed: {e:?}"))?;
    let mut dec = make_dec(c.kind, c.eng, k, r, b, None).map_err(|e| format!("decoder construction failed: {e:?}"))?;
    let mut probes_r: Vec<usize> = vec![0, r - 1, r, r + 1];
    let mut probes_k: Vec<usize> = vec![0, k - 1, k, k + 1];
    probes_r.extend_from_slice(&c.probes);
    probes_k.extend_from_slice(&c.probes);
    let mut sparse = false;

    for round in 0..c.rounds as u64 {
        let data = DataSpec { mode: (round % 5) as u8, seed: c.seed ^ round }.expand(k, b);
        // ---------------- encoder
        for (i, d) in data.iter().enumerate() {
            let res = no_panic(|| enc.add(d)).map_err(|p| format!("round {round}: add_original_shard {p}"))?;
            if let Err(e) = res {
                fail!("round {round}: add_original_shard #{i} rejected with {e:?} although the previous result was dropped");
            }
        }
        let mut verdict: CheckResult = Ok(());
        let mut rec: Vec<Vec<u8>> = Vec::new();
        let er = no_panic(|| {
            enc.encode_with(&mut |res| {
                verdict = (|| {
                    for &p in &probes_r {
                        match res.recovery(p) {
                            Some(s) => {
                                ensure!(p < r, "recovery({p}) is Some although recovery_count is {r}");
                                ensure!(s.len() == b, "recovery({p}) has {} bytes, shard size is {b}", s.len());
                            }
                            None => ensure!(p >= r, "recovery({p}) is None although recovery_count is {r}"),
                        }
                    }
                    let mut it = res.recovery_iter();
                    for j in 0..r {
                        let Some(s) = it.next() else { fail!("recovery_iter ended after {j} of {r} shards") };
                        ensure!(Some(s) == res.recovery(j), "recovery_iter item {j} differs from recovery({j})");
                        ensure!(s.len() == b, "recovery_iter item {j} has {} bytes", s.len());
                        rec.push(s.to_vec());
                    }
                    for extra in 0..6 {
                        ensure!(it.next().is_none(), "recovery_iter yields a shard after the {r} recovery shards (call {extra} after the end)");
                    }
                    Ok(())
                })();
            })
        })
        .map_err(|p| format!("round {round}: encode / result accessors {p}"))?;
        if let Err(e) = er {
            fail!("round {round}: encode failed with {e:?} after {k} accepted shards");
        }
        verdict.map_err(|f| format!("round {round}: {}", f.msg))?;
        let fresh = encode_all(c.kind, c.eng, k, r, b, &data).map_err(|e| format!("fresh encode failed: {e:?}"))?;
        ensure!(rec == fresh, "round {round}: recovery shards differ from a fresh encoder's");

        // ---------------- decoder
        let spec = RecvSpec { seed: c.recv.seed ^ round, n_mode: if round % 4 == 3 { 3 } else { c.recv.n_mode }, ..c.recv };
        let given = spec.arrival(k, r);
        let mut have = vec![false; k];
        for g in &given {
            let res = no_panic(|| if g.rec { dec.add_recovery(g.idx, &rec[g.idx]) } else { dec.add_original(g.idx, &data[g.idx]) }).map_err(|p| format!("round {round}: add {p}"))?;
            if let Err(e) = res {
                fail!("round {round}: add of {} shard {} rejected with {e:?} although the previous result was dropped", if g.rec { "recovery" } else { "original" }, g.idx);
            }
            if !g.rec {
                have[g.idx] = true;
            }
        }
        let missing: Vec<usize> = (0..k).filter(|&i| !have[i]).collect();
        if k >= 16 && !missing.is_empty() && missing.len() < k {
            sparse = true;
        }
        let mut verdict: CheckResult = Ok(());
        let dr = no_panic(|| {
            dec.decode_with(&mut |res| {
                verdict = (|| {
                    for &p in &probes_k {
                        match res.restored_original(p) {
                            Some(s) => {
                                ensure!(p < k, "restored_original({p}) is Some although original_count is {k}");
                                ensure!(!have[p], "restored_original({p}) is Some although original {p} was given");
                                ensure!(s == &data[p][..], "restored_original({p}) differs from the encoded original");
                            }
                            None => ensure!(p >= k || have[p], "restored_original({p}) is None although original {p} was withheld"),
                        }
                    }
                    let mut it = res.restored_original_iter();
                    for &i in &missing {
                        let Some((idx, s)) = it.next() else { fail!("restored_original_iter ended before yielding missing original {i}") };
                        ensure!(idx == i, "restored_original_iter yields index {idx}, expected the next missing original {i}");
                        ensure!(s == &data[i][..], "restored_original_iter item for index {i} differs from the encoded original");
                        ensure!(Some(s) == res.restored_original(i), "iterator item and restored_original({i}) differ");
                    }
                    for extra in 0..6 {
                        if let Some((idx, _)) = it.next() {
                            fail!("restored_original_iter yields index {idx} after all {} missing originals (call {extra} after the end)", missing.len());
                        }
                    }
                    Ok(())
                })();
            })
        })
        .map_err(|p| format!("round {round}: decode / result accessors {p}"))?;
        if let Err(e) = dr {
            fail!("round {round}: decode failed with {e:?} after {} accepted shards (k={k})", given.len());
        }
        verdict.map_err(|f| format!("round {round}: {}", f.msg))?;
    }
    st.classf("kind", c.kind.name());
    st.classf("engine", c.eng.name());
    st.classf("rounds", if c.rounds >= 3 { "3+" } else { "1-2" });
    if sparse || c.rounds >= 3 || c.probes.iter().any(|&p| p >= 1 << 32) {
        st.nontrivial_case("accessors", c);
    }
    Ok(())
}
