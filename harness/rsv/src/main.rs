use rsv::props;
use rsv::runner::{install_panic_hook, Run, Tier};
use serde_json::Value;

/// in the child a panic must be loud and fatal
fn install_panic_hook_child() {
    let default = std::panic::take_hook();
    std::panic::set_hook(Box::new(move |info| {
        default(info);
        std::process::exit(101);
    }));
}

fn usage() -> ! {
    eprintln!("usage: rsv <property-id> [quick|thorough] [--replay <file>] | rsv list");
    std::process::exit(2)
}

fn main() {
    let args: Vec<String> = std::env::args().skip(1).collect();
    if args.is_empty() {
        usage();
    }
    if args[0] == "c16-child" {
        install_panic_hook_child();
        std::process::exit(rsv::props::c16::child_main());
    }
    if args[0] == "c14-child" {
        install_panic_hook_child();
        std::process::exit(rsv::props::c14::child_main());
    }
    if args[0] == "list" {
        for p in props::all() {
            println!("{}", p.id);
        }
        return;
    }
    let id = args[0].clone();
    let mut tier = match std::env::var("VERIF_TIER").ok().as_deref() {
        Some("thorough") => Tier::Thorough,
        _ => Tier::Quick,
    };
    let mut replay: Option<String> = None;
    let mut i = 1;
    while i < args.len() {
        match args[i].as_str() {
            "quick" => tier = Tier::Quick,
            "thorough" => tier = Tier::Thorough,
            "--replay" => {
                i += 1;
                replay = Some(args.get(i).cloned().unwrap_or_else(|| usage()));
            }
            _ => usage(),
        }
        i += 1;
    }
    let seed: u64 = std::env::var("VERIF_SEED")
        .ok()
        .and_then(|s| s.trim().parse::<i128>().ok())
        .map(|v| v as u64)
        .unwrap_or(0);

    install_panic_hook();
    if let Err(e) = rsv::refmodel::selftest() {
        println!("INCONCLUSIVE reference model self-test failed: {e}");
        std::process::exit(2);
    }

    let Some(def) = props::find(&id) else {
        eprintln!("unknown property {id}");
        std::process::exit(2);
    };
    let parts = (def.parts)();

    if let Some(path) = replay {
        let mut rc = replay_file(def.id, &parts, &path, true);
        // a case found in the second build profile (no debug assertions, wrapping arithmetic) may only fail there
        if rc == 0 && std::env::var("RSV_CHILD").is_err() {
            if let Some(bin) = wrap_binary() {
                println!("replaying in the second build profile (no debug assertions, wrapping arithmetic)");
                if let Ok(st) = std::process::Command::new(bin).arg(def.id).arg("--replay").arg(&path).env("RSV_CHILD", "1").status() {
                    rc = st.code().unwrap_or(2);
                }
            }
        }
        std::process::exit(rc);
    }

    // global watchdog: a wedged check ends as inconclusive instead of hanging
    {
        let id = def.id;
        let limit = std::time::Duration::from_secs(if tier == Tier::Quick { 1200 } else { 12 * 3600 });
        std::thread::spawn(move || {
            std::thread::sleep(limit);
            println!("INCONCLUSIVE property={id} global watchdog: the check did not finish within {limit:?}");
            std::process::exit(2);
        });
    }
    let mut run = Run::new(def.id, tier, seed);
    run.rule = def.rule.to_string();
    run.assumptions = def.assumptions.iter().map(|s| s.to_string()).collect();
    run.assumptions.push("build profiles: all cases run in an optimised build WITH debug assertions and overflow checks; a quarter as many further cases (other seed) run in a second build without debug assertions and with wrapping arithmetic (coverage.wrap_profile reports whether that pass ran)".to_string());

    // permanent replay tier first
    let dir = format!("{}/regress/{}", rsv::runner::verif_dir(), def.id);
    let mut regress = 0u64;
    if let Ok(rd) = std::fs::read_dir(&dir) {
        let mut files: Vec<_> = rd.filter_map(|e| e.ok()).map(|e| e.path()).collect();
        files.sort();
        for f in files {
            if f.extension().and_then(|s| s.to_str()) != Some("json") {
                continue;
            }
            let p = f.to_string_lossy().to_string();
            regress += 1;
            if replay_file(def.id, &parts, &p, false) == 1 {
                let body: Value = std::fs::read_to_string(&p)
                    .ok()
                    .and_then(|t| serde_json::from_str(&t).ok())
                    .unwrap_or(Value::Null);
                run.failures.push(rsv::runner::Failure {
                    part: format!("regress:{}", body["part"].as_str().unwrap_or("?")),
                    case: body["case"].clone(),
                    message: "saved regression case fails".into(),
                    replay_path: Some(p),
                });
            }
        }
    }
    run.extra.insert("regress_cases_replayed".into(), regress.into());

    // RSV_ONLY_PART=<name>: debugging aid, runs a single part (evidence then covers only that part)
    let only = std::env::var("RSV_ONLY_PART").ok();
    for part in &parts {
        if run.failed() {
            break;
        }
        if let Some(o) = &only {
            if part.name() != o {
                continue;
            }
        }
        part.run(&mut run);
    }
    // every check, both tiers: a quarter of the cases again in a SECOND BUILD PROFILE - wrapping arithmetic and no
    // debug assertions, i.e. what `cargo build --release` gives users (DESIGN.md 2.2). Side effects that live inside
    // debug_assert!, and arithmetic that only wraps silently, behave differently there.
    if std::env::var("RSV_CHILD").is_err() && std::env::var("RSV_NO_SECOND_PROFILE").is_err() && only.is_none() && !run.failed() {
        wrap_profile(&mut run);
    }
    // thorough tier: coverage-guided deepening with the same oracles (DESIGN.md 2.7)
    if tier == Tier::Thorough && std::env::var("RSV_NO_FUZZ").is_err() && std::env::var("RSV_CHILD").is_err() {
        for (target, runs) in rsv::fuzz::targets_for(def.id) {
            rsv::fuzz::campaign(&mut run, target, runs);
        }
    }
    std::process::exit(run.finish());
}

/// builds (incrementally) and returns the harness binary of the second profile
fn wrap_binary() -> Option<std::path::PathBuf> {
    use std::process::Command;
    let exe = std::env::current_exe().ok()?;
    let harness = exe.parent().and_then(|p| p.parent()).and_then(|p| p.parent())?;
    let build = |extra: &[&str]| {
        let mut args = vec!["build", "--profile", "wrap", "-p", "rsv", "--offline"];
        args.extend_from_slice(extra);
        Command::new("flock").arg(harness.join("target/.build.lock")).arg("cargo").args(&args).env("CARGO_NET_OFFLINE", "true").current_dir(harness).output()
    };
    let bin = harness.join("target/wrap/rsv");
    let ok = matches!(&build(&[]), Ok(o) if o.status.success()) || matches!(&build(&["--no-default-features"]), Ok(o) if o.status.success());
    if ok && bin.exists() {
        Some(bin)
    } else {
        None
    }
}

fn wrap_profile(run: &mut Run) {
    use std::process::Command;
    let Some(bin) = wrap_binary() else {
        run.extra.insert("wrap_profile".into(), "unavailable: build failed".into());
        eprintln!("NOTE: the second build profile (no debug assertions, wrapping arithmetic) could not be built; that pass is skipped");
        return;
    };
    let out = Command::new(&bin)
        .arg(run.id)
        .arg(if run.tier == Tier::Thorough { "thorough" } else { "quick" })
        .env("RSV_CHILD", "1")
        .env("RSV_NO_FUZZ", "1")
        .env("RSV_SCALE", format!("{}", run.scale * 0.25))
        .env("VERIF_SEED", format!("{}", run.seed ^ 0x2D))
        .output();
    let Ok(out) = out else {
        run.extra.insert("wrap_profile".into(), "unavailable: cannot run".into());
        return;
    };
    let text = String::from_utf8_lossy(&out.stdout).to_string();
    let mut evals = 0u64;
    for l in text.lines() {
        if let Some(i) = l.find("evaluations=") {
            evals = l[i + 12..].split_whitespace().next().and_then(|v| v.parse().ok()).unwrap_or(0);
        }
    }
    run.stats.evaluations += evals;
    *run.stats.counters.entry("wrap_profile/evaluations".into()).or_insert(0) += evals;
    run.extra.insert("wrap_profile".into(), serde_json::json!({"status": "ran", "evaluations": evals, "exit": out.status.code()}));
    match out.status.code() {
        Some(0) => {}
        Some(1) => {
            let path = text.lines().find(|l| l.starts_with("VIOLATION")).and_then(|l| l.split("replay=").nth(1)).unwrap_or("").trim().to_string();
            let msg = text.lines().find(|l| l.trim_start().starts_with("part=")).unwrap_or("").trim().to_string();
            run.failures.push(rsv::runner::Failure {
                part: "wrap-profile".into(),
                case: Value::Null,
                message: format!("in the build with wrapping arithmetic and without debug assertions: {msg}"),
                replay_path: Some(path),
            });
        }
        _ => run.inconclusive.push("wrap-profile child ended abnormally".into()),
    }
}

/// 0 = passes, 1 = still fails, 2 = unusable file
fn replay_file(id: &str, parts: &[Box<dyn rsv::runner::PartDyn>], path: &str, verbose: bool) -> i32 {
    let Ok(text) = std::fs::read_to_string(path) else {
        eprintln!("cannot read {path}");
        return 2;
    };
    let Ok(body) = serde_json::from_str::<Value>(&text) else {
        eprintln!("cannot parse {path}");
        return 2;
    };
    let part_name = body["part"].as_str().unwrap_or("");
    let Some(part) = parts.iter().find(|p| p.name() == part_name) else {
        eprintln!("{path}: unknown part {part_name:?} for {id}");
        return 2;
    };
    match part.replay(&body["case"]) {
        Ok(()) => {
            if verbose {
                println!("replay of {path}: passes");
            }
            0
        }
        Err(msg) => {
            if verbose {
                println!("VIOLATION property={id} replay={path}");
                println!("  part={part_name} message={msg}");
            }
            1
        }
    }
}
