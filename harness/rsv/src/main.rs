use rsv::props;
use rsv::runner::{install_panic_hook, Run, Tier};
use serde_json::Value;

/// in the child a panic must be loud and fatal
fn install_panic_hook_child() {
    let default = std::panic::take_hook();
    std::panic::set_hook(Box::new(move |info| {
        default(info);
        std::process::exit(101);
    }));
}

fn usage() -> ! {
    eprintln!("usage: rsv <property-id> [quick|thorough] [--replay <file>] | rsv list");
    std::process::exit(2)
}

fn main() {
    let args: Vec<String> = std::env::args().skip(1).collect();
    if args.is_empty() {
        usage();
    }
    if args[0] == "c16-child" {
        install_panic_hook_child();
        std::process::exit(rsv::props::c16::child_main());
    }
    if args[0] == "list" {
        for p in props::all() {
            println!("{}", p.id);
        }
        return;
    }
    let id = args[0].clone();
    let mut tier = match std::env::var("VERIF_TIER").ok().as_deref() {
        Some("thorough") => Tier::Thorough,
        _ => Tier::Quick,
    };
    let mut replay: Option<String> = None;
    let mut i = 1;
    while i < args.len() {
        match args[i].as_str() {
            "quick" => tier = Tier::Quick,
            "thorough" => tier = Tier::Thorough,
            "--replay" => {
                i += 1;
                replay = Some(args.get(i).cloned().unwrap_or_else(|| usage()));
            }
            _ => usage(),
        }
        i += 1;
    }
    let seed: u64 = std::env::var("VERIF_SEED")
        .ok()
        .and_then(|s| s.trim().parse::<i128>().ok())
        .map(|v| v as u64)
        .unwrap_or(0);

    install_panic_hook();
    if let Err(e) = rsv::refmodel::selftest() {
        println!("INCONCLUSIVE reference model self-test failed: {e}");
        std::process::exit(2);
    }

    let Some(def) = props::find(&id) else {
        eprintln!("unknown property {id}");
        std::process::exit(2);
    };
    let parts = (def.parts)();

    if let Some(path) = replay {
        std::process::exit(replay_file(def.id, &parts, &path, true));
    }

    let mut run = Run::new(def.id, tier, seed);
    run.rule = def.rule.to_string();
    run.assumptions = def.assumptions.iter().map(|s| s.to_string()).collect();

    // permanent replay tier first
    let dir = format!("{}/regress/{}", rsv::runner::verif_dir(), def.id);
    let mut regress = 0u64;
    if let Ok(rd) = std::fs::read_dir(&dir) {
        let mut files: Vec<_> = rd.filter_map(|e| e.ok()).map(|e| e.path()).collect();
        files.sort();
        for f in files {
            if f.extension().and_then(|s| s.to_str()) != Some("json") {
                continue;
            }
            let p = f.to_string_lossy().to_string();
            regress += 1;
            if replay_file(def.id, &parts, &p, false) == 1 {
                let body: Value = std::fs::read_to_string(&p)
                    .ok()
                    .and_then(|t| serde_json::from_str(&t).ok())
                    .unwrap_or(Value::Null);
                run.failures.push(rsv::runner::Failure {
                    part: format!("regress:{}", body["part"].as_str().unwrap_or("?")),
                    case: body["case"].clone(),
                    message: "saved regression case fails".into(),
                    replay_path: Some(p),
                });
            }
        }
    }
    run.extra.insert("regress_cases_replayed".into(), regress.into());

    for part in &parts {
        if run.failed() {
            break;
        }
        part.run(&mut run);
    }
    // thorough tier: coverage-guided deepening with the same oracles (DESIGN.md 2.7)
    if tier == Tier::Thorough && std::env::var("RSV_NO_FUZZ").is_err() {
        for (target, runs) in rsv::fuzz::targets_for(def.id) {
            rsv::fuzz::campaign(&mut run, target, runs);
        }
    }
    std::process::exit(run.finish());
}

/// 0 = passes, 1 = still fails, 2 = unusable file
fn replay_file(id: &str, parts: &[Box<dyn rsv::runner::PartDyn>], path: &str, verbose: bool) -> i32 {
    let Ok(text) = std::fs::read_to_string(path) else {
        eprintln!("cannot read {path}");
        return 2;
    };
    let Ok(body) = serde_json::from_str::<Value>(&text) else {
        eprintln!("cannot parse {path}");
        return 2;
    };
    let part_name = body["part"].as_str().unwrap_or("");
    let Some(part) = parts.iter().find(|p| p.name() == part_name) else {
        eprintln!("{path}: unknown part {part_name:?} for {id}");
        return 2;
    };
    match part.replay(&body["case"]) {
        Ok(()) => {
            if verbose {
                println!("replay of {path}: passes");
            }
            0
        }
        Err(msg) => {
            if verbose {
                println!("VIOLATION property={id} replay={path}");
                println!("  part={part_name} message={msg}");
            }
            1
        }
    }
}
