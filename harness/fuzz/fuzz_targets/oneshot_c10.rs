#![no_main]
use libfuzzer_sys::fuzz_target;

fuzz_target!(|data: &[u8]| {
    rsv::fuzz::target("oneshot_c10", data);
});
