#![no_main]
use libfuzzer_sys::fuzz_target;

fuzz_target!(|data: &[u8]| {
    rsv::fuzz::target("obj_c06", data);
});
