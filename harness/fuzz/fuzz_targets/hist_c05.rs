#![no_main]
use libfuzzer_sys::fuzz_target;

fuzz_target!(|data: &[u8]| {
    rsv::fuzz::target("hist_c05", data);
});
